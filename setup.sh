#!/bin/bash
# One-time setup after a fresh restore: build the instrumenter, warm the Go build cache with one
# instrumented, one -race and one plain build. Everything comes from files on disk (offline).
set -u
V=$(cd "$(dirname "$0")" && pwd)
export VERIF_RACE=1
rm -f "$V/build/stamp"
"$V/build.sh" || exit 1
echo "setup ok"
