package main

// C17 — the genetic code and nucleotide tables are sound and complete over IUPAC.
// The domain is finite and enumerated outright.

import (
	"fmt"
	"strings"

	"harness/engine"

	"github.com/virus-evolution/gofasta/pkg/alphabet"
	"github.com/virus-evolution/gofasta/pkg/encoding"
	"github.com/virus-evolution/gofasta/pkg/fastaio"
)

type c17Case struct {
	Kind  string `json:"kind"`
	Input string `json:"input"`
}

var accepted32 string

func init() {
	var sb strings.Builder
	for i := 0; i < len(iupac15); i++ {
		sb.WriteByte(iupac15[i])
	}
	for i := 0; i < len(iupac15); i++ {
		sb.WriteByte(iupac15[i] + 32)
	}
	sb.WriteString("-?")
	accepted32 = sb.String()
}

// expected complement of a text symbol, case preserved
func c17Comp(c byte) byte {
	if c == '-' || c == '?' {
		return c
	}
	lower := c >= 'a' && c <= 'z'
	r := complementBase(upper(c))
	if lower {
		r += 32
	}
	return r
}

func c17Check(c c17Case, res *engine.JobResult) {
	res.Evals++
	bad := func(cause, format string, a ...interface{}) {
		res.Violate(cause, fmt.Sprintf("%s %q: ", c.Kind, c.Input)+fmt.Sprintf(format, a...), c)
	}
	switch c.Kind {
	case "codon":
		want := translateAmbig(c.Input)
		cd := alphabet.MakeCodonDict()
		got, inDict := cd[c.Input]
		tl, err := alphabet.Translate(c.Input, false)
		ts, errs := alphabet.Translate(c.Input, true)
		if want != 0 {
			if !inDict {
				bad("codon-dict-incomplete", "every expansion translates to %c but the codon dictionary has no entry", want)
			} else if got != string(want) {
				bad("codon-dict-unsound", "dictionary gives %q, every expansion translates to %c", got, want)
			}
			if err != nil || tl != string(want) {
				bad("translate-incomplete", "Translate(non-strict) = %q,%v want %c", tl, err, want)
			}
			if errs != nil || ts != string(want) {
				bad("translate-incomplete", "Translate(strict) = %q,%v want %c", ts, errs, want)
			}
		} else {
			if inDict {
				bad("codon-dict-unsound", "dictionary gives %q although the expansions disagree", got)
			}
			if err != nil || tl != "X" {
				bad("translate-unsound", "Translate(non-strict) = %q,%v want X", tl, err)
			}
			if errs == nil {
				bad("translate-unsound", "Translate(strict) = %q with no error although the expansions disagree", ts)
			}
		}
		if strings.Trim(c.Input, "ACGT") != "" {
			res.Nontrivial++
		}
	case "codonpair":
		want := string(translateCodonACGT(c.Input[:3])) + string(translateCodonACGT(c.Input[3:]))
		for _, strict := range []bool{false, true} {
			tl, err := alphabet.Translate(c.Input, strict)
			if err != nil || tl != want {
				bad("translate-sequence", "Translate(strict=%v) = %q,%v want %q", strict, tl, err, want)
			}
		}
		for _, cut := range []int{1, 2, 4, 5} {
			if _, err := alphabet.Translate(c.Input[:cut], false); err == nil {
				bad("translate-length", "a sequence of length %d was translated without error", cut)
			}
		}
		res.Nontrivial++
	case "codonseq":
		want := ""
		strictOK := true
		for i := 0; i+3 <= len(c.Input); i += 3 {
			aa := translateAmbig(c.Input[i : i+3])
			if aa == 0 {
				aa = 'X'
				strictOK = false
			}
			want += string(aa)
		}
		tl, err := alphabet.Translate(c.Input, false)
		if err != nil || tl != want {
			bad("translate-sequence", "Translate(non-strict) = %q,%v want %q", tl, err, want)
		}
		ts, errs := alphabet.Translate(c.Input, true)
		if strictOK && (errs != nil || ts != want) {
			bad("translate-sequence", "Translate(strict) = %q,%v want %q", ts, errs, want)
		}
		if !strictOK && errs == nil {
			bad("translate-unsound", "Translate(strict) = %q without error although a codon is unresolvable", ts)
		}
		res.Nontrivial++
	case "symbol":
		ch := c.Input[0]
		want := c17Comp(ch)
		if g := alphabet.Complement(c.Input); g != string(want) {
			bad("complement-text", "Complement = %q want %q", g, string(want))
		}
		ca := alphabet.MakeCompArray()
		if ca[ch] != want {
			bad("complement-text", "MakeCompArray[%q] = %q want %q", ch, ca[ch], want)
		}
		if ca[ca[ch]] != ch {
			bad("complement-involution", "complement twice gives %q", ca[ca[ch]])
		}
		for _, hard := range []bool{false, true} {
			ea := encoding.MakeEncodingArray()
			if hard {
				ea = encoding.MakeEncodingArrayHardGaps()
			}
			da := encoding.MakeDecodingArray()
			if ea[ch] == 0 {
				bad("encode", "accepted symbol encodes to 0 (hardgaps=%v)", hard)
				continue
			}
			if da[ea[ch]] != string(upper(ch)) {
				bad("decode", "decode(encode) = %q (hardgaps=%v)", da[ea[ch]], hard)
			}
			// the encoding must realise the base sets: two symbols are compatible (AND >= 16) iff their sets intersect
			for j := 0; j < len(accepted32); j++ {
				o := accepted32[j]
				m1, _ := maskOf(ch, hard)
				m2, _ := maskOf(o, hard)
				if (ea[ch]&ea[o] >= 16) != (m1&m2 != 0) {
					bad("encode-sets", "encoded %q & %q = %d but base sets %04b/%04b (hardgaps=%v)", ch, o, ea[ch]&ea[o], m1, m2, hard)
				}
			}
			// the 'unambiguous' bit (8) is set exactly for A,C,G,T
			if (ea[ch]&8 != 0) != isACGT(ch) {
				bad("encode-sets", "bit 8 of the encoding of %q is %d", ch, ea[ch]&8)
			}
		}
		ea := encoding.MakeEncodingArray()
		eca := alphabet.MakeEncodedCompArray()
		if eca[ea[ch]] != ea[want] {
			bad("complement-encoded", "encoded complement = %d want %d (%q)", eca[ea[ch]], ea[want], want)
		}
		if eca[eca[ea[ch]]] != ea[ch] {
			bad("complement-involution", "encoded complement twice gives %d want %d", eca[eca[ea[ch]]], ea[ch])
		}
		// the same for the hard-gap encoding (hardGaps readers): it differs from the other one in the code of '-'
		eh := encoding.MakeEncodingArrayHardGaps()
		if eca[eh[ch]] != eh[want] {
			bad("complement-encoded-hardgaps", "encoded complement of the hard-gap encoding %d of %q = %d want %d (%q)", eh[ch], ch, eca[eh[ch]], eh[want], want)
		}
		if !isACGT(ch) {
			res.Nontrivial++
		}
	case "string":
		s := c.Input
		wb := make([]byte, len(s))
		for i := 0; i < len(s); i++ {
			wb[len(s)-1-i] = c17Comp(s[i])
		}
		want := string(wb)
		if g := alphabet.ReverseComplement(s); g != want {
			bad("revcomp-text", "ReverseComplement = %q want %q", g, want)
		}
		if g := alphabet.ReverseComplement(alphabet.ReverseComplement(s)); g != s {
			bad("revcomp-involution", "twice = %q", g)
		}
		fr := fastaio.FastaRecord{ID: "x", Description: "x d", Seq: s, Idx: 3}
		rc := fr.ReverseComplement()
		if rc.Seq != want || rc.ID != "x" || rc.Description != "x d" || rc.Idx != 3 {
			bad("revcomp-record", "FastaRecord.ReverseComplement = %+v want seq %q", rc, want)
		}
		if g := rc.ReverseComplement().Seq; g != s {
			bad("revcomp-involution", "FastaRecord twice = %q", g)
		}
		if g := fr.Complement().Complement().Seq; g != s {
			bad("complement-involution", "FastaRecord.Complement twice = %q", g)
		}
		efr := fr.Encode()
		erc := efr.ReverseComplement()
		if g := efr.Decode().Seq; g != strings.ToUpper(s) {
			bad("revcomp-mutates-input", "EncodedFastaRecord.ReverseComplement changed its receiver's sequence to %q", g)
		}
		ecp := efr.Complement()
		if g := efr.Decode().Seq; g != strings.ToUpper(s) {
			bad("complement-mutates-input", "EncodedFastaRecord.Complement changed its receiver's sequence to %q", g)
		}
		if g := ecp.Complement().Decode().Seq; g != strings.ToUpper(s) {
			bad("complement-involution", "EncodedFastaRecord.Complement twice = %q", g)
		}
		if g := fr.Seq; g != s {
			bad("revcomp-mutates-input", "FastaRecord methods changed the receiver to %q", g)
		}
		if g := erc.Decode().Seq; g != strings.ToUpper(want) {
			bad("revcomp-encoded", "EncodedFastaRecord.ReverseComplement decodes to %q want %q", g, strings.ToUpper(want))
		}
		if g := erc.ReverseComplement().Decode().Seq; g != strings.ToUpper(s) {
			bad("revcomp-involution", "EncodedFastaRecord twice = %q", g)
		}
		if g := efr.Decode().Seq; g != strings.ToUpper(s) {
			bad("decode", "Encode().Decode() = %q", g)
		}
		// records as the hardGaps readers produce them: decode, and complement twice, give the sequence back
		for _, hard := range []bool{false, true} {
			ea := encoding.MakeEncodingArray()
			if hard {
				ea = encoding.MakeEncodingArrayHardGaps()
			}
			enc := make([]byte, len(s))
			for i := 0; i < len(s); i++ {
				enc[i] = ea[s[i]]
			}
			hr := fastaio.EncodedFastaRecord{ID: "x", Seq: enc}
			if g := hr.Decode().Seq; g != strings.ToUpper(s) {
				bad("decode", "EncodedFastaRecord.Decode of the encoding (hardgaps=%v) = %q", hard, g)
			}
			if g := encoding.DecodeToString(enc); g != strings.ToUpper(s) {
				bad("decode", "DecodeToString of the encoding (hardgaps=%v) = %q", hard, g)
			}
			if g := hr.ReverseComplement().Decode().Seq; g != strings.ToUpper(want) {
				bad("revcomp-encoded-hardgaps", "ReverseComplement of the encoding (hardgaps=%v) decodes to %q want %q", hard, g, strings.ToUpper(want))
			}
		}
		if len(s) > 1 {
			res.Nontrivial++
		}
	}
}

func init() {
	register(&Prop{
		ID:    "C17",
		Level: "model_checking",
		Rule:  "complete enumeration of a finite domain: all 15^3 IUPAC codons (dictionary, strict and non-strict Translate), all 64^2 unambiguous codon pairs, every 2-codon sequence of any IUPAC codon with a 10-codon menu of resolvable/unresolvable ambiguity codons (both orders) and every 3-codon sequence over the menu, all 32 accepted characters (complement tables text+encoded, encode/decode in both gap modes, set semantics of the bit encoding against all 32 partners), all strings of length 1..3 (thorough 1..4) over the 32 characters (reverse complement through the string, FastaRecord and EncodedFastaRecord forms). Non-trivial: ambiguous codons, non-ACGT symbols, strings of length >= 2; each case generated once",
		Assumptions: []string{
			"oracle: IUPAC base sets and NCBI translation table 1 written out independently in harness/ref_iupac.go",
		},
		Bounds: func(tier string) map[string]interface{} {
			return map[string]interface{}{"codons": 3375, "codon_pairs": 4096, "symbols": 32, "max_string_length": map[string]int{"quick": 3, "thorough": 4}[tier]}
		},
		Plan: func(tier string) ([]string, *engine.JobResult) {
			jobs := []string{"libconc-ref", "cli", "codons", "pairs", "symbols"}
			nsh := 4
			if tier == "thorough" {
				nsh = 64
			}
			for i := 0; i < nsh; i++ {
				jobs = append(jobs, fmt.Sprintf("strings:%d/%d", i, nsh))
			}
			return jobs, nil
		},
		Exec: func(tier, job string) *engine.JobResult {
			res := &engine.JobResult{}
			if strings.HasPrefix(job, "case:") {
				var c c17Case
				mustJSON(job[5:], &c)
				if c.Kind == "cli-codon" {
					c17CLI(res, c.Input)
					return res
				}
				c17Check(c, res)
				return res
			}
			switch {
			case job == "libconc-ref":
				// the canonical schedule of the concurrent-use scenarios (schedule layer) against the reference tables
				for _, q := range []string{"ATGGCNYTRTRAAAR TTYCAYMGRNNNATN", "ATGGCNYTRTRAAAR TTYCAYMGRNNNATN ACGTMRWSYKVHDBN"} {
					c := Call{Cmd: "libconc", Query: q, NCPU: 2}
					o := c.Canon()
					var want []string
					for _, s := range strings.Fields(q) {
						want = append(want, libUseModel(s))
					}
					res.Evals++
					res.Nontrivial++
					if o.Outcome != "returned" || o.Out != strings.Join(want, "\n")+"\n" {
						res.Violate("tables:concurrent-use-canonical", fmt.Sprintf("library functions on %q give %s %q; the reference tables give %q", q, o.Outcome, o.Out, strings.Join(want, "\n")), c17Case{"libconc", q})
					}
				}
			case job == "cli":
				c17CLI(res, "")
			case job == "codons":
				for i := 0; i < 15; i++ {
					for j := 0; j < 15; j++ {
						for k := 0; k < 15; k++ {
							c := c17Case{"codon", string([]byte{iupac15[i], iupac15[j], iupac15[k]})}
							c17Check(c, res)
							if i == 4 && j == 0 {
								res.Sample(c)
							}
						}
					}
				}
				res.States = 1 + 15 + 225 + 3375
				// completeness of the dictionary in the other direction: no key outside the 3375 codons
				cd := alphabet.MakeCodonDict()
				for k, v := range cd {
					if len(k) != 3 || translateAmbig(k) == 0 || string(translateAmbig(k)) != v {
						res.Violate("codon-dict-unsound", fmt.Sprintf("dictionary entry %q -> %q is not justified by the standard code", k, v), c17Case{"codon", k})
					}
				}
			case job == "pairs":
				acgt := "ACGT"
				var cod []string
				for _, a := range acgt {
					for _, b := range acgt {
						for _, c := range acgt {
							cod = append(cod, string([]rune{a, b, c}))
						}
					}
				}
				for _, x := range cod {
					for _, y := range cod {
						c17Check(c17Case{"codonpair", x + y}, res)
					}
				}
				res.States = 1 + 64 + 4096
				// sequences of 2 and 3 codons mixing resolvable and unresolvable ambiguity codons
				menu := []string{"ATG", "TAA", "GCN", "YTR", "TRA", "ATN", "NNN", "RAY", "MGR", "CTY"}
				for _, x := range allCodons(iupac15) {
					for _, y := range menu {
						c17Check(c17Case{"codonseq", x + y}, res)
						c17Check(c17Case{"codonseq", y + x}, res)
					}
				}
				for _, x := range menu {
					for _, y := range menu {
						for _, z := range menu {
							c17Check(c17Case{"codonseq", x + y + z}, res)
						}
					}
				}
				res.States += 2*3375*len(menu) + 1000
			case job == "symbols":
				for i := 0; i < len(accepted32); i++ {
					c := c17Case{"symbol", accepted32[i : i+1]}
					c17Check(c, res)
					if i == 8 {
						res.Sample(c)
					}
				}
				res.States = 33
			case strings.HasPrefix(job, "strings:"):
				var shard, nsh int
				fmt.Sscanf(job, "strings:%d/%d", &shard, &nsh)
				n := len(accepted32)
				idx := 0
				maxLen := 3
				if tier == "thorough" {
					maxLen = 4
				}
				for l := 1; l <= maxLen; l++ {
					tot := 1
					for i := 0; i < l; i++ {
						tot *= n
					}
					for v := 0; v < tot; v++ {
						idx++
						if idx%nsh != shard {
							continue
						}
						b := make([]byte, l)
						x := v
						for i := l - 1; i >= 0; i-- {
							b[i] = accepted32[x%n]
							x /= n
						}
						c17Check(c17Case{"string", string(b)}, res)
					}
				}
				res.States = res.Evals
			}
			res.Transitions = res.States
			return res
		},
	})
}

// c17CLI binds the tables to the shipped binary: `gofasta variants` on a one-gene genome
// ATG AAA TAA with every one of the 3375 IUPAC codons in place of AAA must call aa:orfA:K2<Q>
// exactly when every expansion of the codon translates to the same Q != K, and otherwise list the
// certainly-different bases as nuc: records.
func c17CLI(res *engine.JobResult, only string) {
	genome := "ATGAAATAA"
	gb := renderGenbank(genome, []Feat{{Name: "orfA", Segs: []Seg{{1, 9}}}})
	var codons []string
	for i := 0; i < 15; i++ {
		for j := 0; j < 15; j++ {
			for k := 0; k < 15; k++ {
				codons = append(codons, string([]byte{iupac15[i], iupac15[j], iupac15[k]}))
			}
		}
	}
	if only != "" {
		codons = []string{only}
	}
	recs := []string{"ref", genome}
	for _, c := range codons {
		recs = append(recs, "q"+c, "ATG"+c+"TAA")
	}
	call := Call{Cmd: "variants", Msa: fastaOf(recs...), RefID: "ref", Anno: gb, AnnoSuffix: "gb", Threads: 2}
	o, _ := call.CLI(nil, 2)
	if o.Outcome != "returned" || o.HasErr {
		res.Violate("cli-variants-failed", "gofasta variants failed on the codon alignment: "+o.String(), c17Case{"cli-codon", only})
		return
	}
	lines := strings.Split(strings.TrimSpace(o.Out), "\n")
	if len(lines) != len(codons)+1 {
		res.Violate("cli-variants-rows", fmt.Sprintf("expected %d rows, got %d", len(codons)+1, len(lines)), c17Case{"cli-codon", only})
		return
	}
	for i, c := range codons {
		want := "q" + c + ","
		aa := translateAmbig(c)
		if aa != 0 && aa != 'K' {
			want += "aa:orfA:K2" + string(aa)
		} else {
			var nucs []string
			for p := 0; p < 3; p++ {
				m, _ := maskOf(c[p], false)
				if m&bA == 0 {
					nucs = append(nucs, fmt.Sprintf("nuc:A%d%c", 4+p, c[p]))
				}
			}
			want += strings.Join(nucs, "|")
		}
		res.Evals++
		res.Validated++
		if lines[i+1] != want {
			res.Violate("cli-codon-call", fmt.Sprintf("real binary: codon %s gives row %q, expected %q", c, lines[i+1], want), c17Case{"cli-codon", c})
		}
	}
	res.States += len(codons)
}
