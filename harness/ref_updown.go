package main

// Reference model of `updown topranking` (C08), transcribed from the property statement.

import (
	"fmt"
	"sort"
	"strings"
)

type udRec struct {
	Name string
	Seq  string
}

type udOpts struct {
	SizeTotal, SizeUp, SizeDown, SizeSide, SizeSame int
	DistAll, DistUp, DistDown, DistSide            int
	DistPush                                       int
	ThreshPair                                     float32
	ThreshTarget                                   int
	NoFill                                         bool
	Ignore                                         []string
}

type udHit struct {
	Name string
	Dist int
	Amb  int
	Idx  int
}

const (
	binSame = iota
	binUp
	binDown
	binSide
)

var binNames = [4]string{"same", "up", "down", "side"}

// udClassify: bin and distance of target t relative to query q (reference ref), and whether the pair
// passes the pairwise ambiguity threshold.
func udClassify(ref, q, t string, thresh float32) (bin, dist int, ok bool) {
	qPriv, tPriv, shared, amb := 0, 0, 0, 0
	for i := 0; i < len(ref); i++ {
		qa, ta := isACGT(q[i]), isACGT(t[i])
		qs := qa && upper(q[i]) != upper(ref[i])
		ts := ta && upper(t[i]) != upper(ref[i])
		if qs {
			switch {
			case !ta:
				amb++
			case upper(t[i]) == upper(q[i]):
				shared++
			default:
				qPriv++
			}
		}
		if ts {
			switch {
			case !qa:
				amb++
			case upper(t[i]) == upper(q[i]):
			default:
				tPriv++
			}
		}
		if qa && ta && upper(q[i]) != upper(t[i]) {
			dist++
		}
	}
	sum := qPriv + tPriv + shared + amb
	if sum > 0 && float32(amb)/float32(sum) > thresh {
		return 0, 0, false
	}
	switch {
	case qPriv == 0 && tPriv == 0:
		bin = binSame
	case qPriv > 0 && tPriv == 0:
		bin = binUp
	case qPriv == 0 && tPriv > 0:
		bin = binDown
	default:
		bin = binSide
	}
	return bin, dist, true
}

func ambCountOf(s string) int {
	n := 0
	for i := 0; i < len(s); i++ {
		if !isACGT(s[i]) {
			n++
		}
	}
	return n
}

// udExpect: the four bins the statement prescribes for one query.
// sameAnyOrder reports that the order inside `same` is not specified (--dist-push).
func udExpect(ref string, q udRec, targets []udRec, o udOpts) (bins [4][]udHit, sameAnyOrder bool) {
	var cand [4][]udHit
	for i, t := range targets {
		skip := false
		for _, ig := range o.Ignore {
			if ig == t.Name {
				skip = true
			}
		}
		if skip || ambCountOf(t.Seq) > o.ThreshTarget {
			continue
		}
		b, d, ok := udClassify(ref, q.Seq, t.Seq, o.ThreshPair)
		if !ok {
			continue
		}
		cand[b] = append(cand[b], udHit{t.Name, d, ambCountOf(t.Seq), i})
	}
	order := func(h []udHit) {
		sort.SliceStable(h, func(i, j int) bool {
			if h[i].Dist != h[j].Dist {
				return h[i].Dist < h[j].Dist
			}
			return h[i].Amb < h[j].Amb
		})
	}
	if o.DistPush > 0 {
		bins[binSame] = cand[binSame]
		for b := binUp; b <= binSide; b++ {
			order(cand[b])
			var ds []int
			for _, h := range cand[b] {
				if len(ds) == 0 || ds[len(ds)-1] != h.Dist {
					ds = append(ds, h.Dist)
				}
			}
			if len(ds) > o.DistPush {
				ds = ds[:o.DistPush]
			}
			for _, h := range cand[b] {
				if len(ds) > 0 && h.Dist <= ds[len(ds)-1] {
					bins[b] = append(bins[b], h)
				}
			}
		}
		return bins, true
	}
	// distance limits
	const inf = 1 << 30
	limit := [4]int{inf, inf, inf, inf}
	switch {
	case o.DistAll > 0:
		limit = [4]int{0, o.DistAll, o.DistAll, o.DistAll}
	case o.DistUp != 0 || o.DistDown != 0 || o.DistSide != 0:
		limit = [4]int{0, o.DistUp, o.DistDown, o.DistSide}
	}
	for b := 0; b < 4; b++ {
		order(cand[b])
		var keep []udHit
		for _, h := range cand[b] {
			if h.Dist <= limit[b] {
				keep = append(keep, h)
			}
		}
		cand[b] = keep
	}
	// requested sizes
	var req [4]int
	sized := true
	switch {
	case o.SizeTotal > 0:
		req[binUp], req[binDown], req[binSide] = o.SizeTotal/4, o.SizeTotal/4, o.SizeTotal/4
		req[binSame] = o.SizeTotal - 3*(o.SizeTotal/4)
	case o.SizeSame != 0 || o.SizeUp != 0 || o.SizeDown != 0 || o.SizeSide != 0:
		req = [4]int{o.SizeSame, o.SizeUp, o.SizeDown, o.SizeSide}
	default:
		sized = false
	}
	if !sized {
		return cand, false
	}
	total := req[0] + req[1] + req[2] + req[3]
	var out [4]int
	short := false
	for b := 0; b < 4; b++ {
		out[b] = req[b]
		if len(cand[b]) < req[b] {
			out[b] = len(cand[b])
			short = true
		}
	}
	if short && !o.NoFill {
		sum := func() int { return out[0] + out[1] + out[2] + out[3] }
		for sum() < total {
			progressed := false
			for b := 0; b < 4 && sum() < total; b++ {
				if len(cand[b]) > req[b] && out[b] >= req[b] && out[b] < len(cand[b]) {
					out[b]++
					progressed = true
				}
			}
			if !progressed {
				break
			}
		}
	}
	for b := 0; b < 4; b++ {
		bins[b] = cand[b][:out[b]]
	}
	return bins, false
}

func hitNames(h []udHit) []string {
	var n []string
	for _, x := range h {
		n = append(n, x.Name)
	}
	return n
}

// udParseList parses the list output: query -> four name lists.
func udParseList(out string) (map[string][4][]string, []string, bool) {
	lines := strings.Split(strings.TrimSuffix(out, "\n"), "\n")
	if len(lines) == 0 || lines[0] != "query,closestsame,closestup,closestdown,closestside" {
		return nil, nil, false
	}
	m := map[string][4][]string{}
	var order []string
	for _, l := range lines[1:] {
		f := strings.Split(l, ",")
		if len(f) != 5 {
			return nil, nil, false
		}
		var b [4][]string
		for i := 0; i < 4; i++ {
			if f[i+1] != "" {
				b[i] = strings.Split(f[i+1], ";")
			}
		}
		m[f[0]] = b
		order = append(order, f[0])
	}
	return m, order, true
}

// udParseTable parses the --table output: query -> four lists of "name:distance".
func udParseTable(out string) (map[string][4][]string, []string, bool) {
	lines := strings.Split(strings.TrimSuffix(out, "\n"), "\n")
	if len(lines) == 0 || lines[0] != "query,direction,distance,target" {
		return nil, nil, false
	}
	m := map[string][4][]string{}
	var order []string
	lastBin := map[string]int{}
	for _, l := range lines[1:] {
		f := strings.Split(l, ",")
		if len(f) != 4 {
			return nil, nil, false
		}
		bi := -1
		for i, n := range binNames {
			if n == f[1] {
				bi = i
			}
		}
		if bi < 0 {
			return nil, nil, false
		}
		if _, seen := m[f[0]]; !seen {
			order = append(order, f[0])
		} else if order[len(order)-1] != f[0] || bi < lastBin[f[0]] {
			return nil, nil, false // rows of one query must be contiguous, bins in order
		}
		lastBin[f[0]] = bi
		b := m[f[0]]
		b[bi] = append(b[bi], fmt.Sprintf("%s:%s", f[3], f[2]))
		m[f[0]] = b
	}
	return m, order, true
}
