package main

// Annotation layouts rendered as GenBank flat files and as GFF3, from one abstract description.

import (
	"fmt"
	"strings"
)

type Seg struct{ A, B int } // 1-based inclusive, A <= B

// Feat is one coding feature. Segs are in ascending genomic order. Reverse = whole feature on the
// minus strand (complement(join(...))). CodonStart is 1..3 (GenBank /codon_start; GFF phase of the
// first coding segment = CodonStart-1).
type Feat struct {
	Name       string `json:"name"` // "" = unnamed (GFF only)
	Segs       []Seg  `json:"segs"`
	Reverse    bool   `json:"reverse,omitempty"`
	CodonStart int    `json:"codonstart,omitempty"`
	GffType    string `json:"gfftype,omitempty"` // default "CDS"
	NoID       bool   `json:"noid,omitempty"`    // GFF row without ID attribute
	GbStyle    int    `json:"gbstyle,omitempty"` // reverse joins: 0 complement(join(..)), 1 join(complement(..),..)
}

func (f Feat) codonStart() int {
	if f.CodonStart == 0 {
		return 1
	}
	return f.CodonStart
}

// codingPositions lists the genomic positions of the feature in coding order (5'->3' on its strand),
// starting at the codon_start offset.
func (f Feat) codingPositions() []int {
	var pos []int
	if !f.Reverse {
		for _, s := range f.Segs {
			for i := s.A; i <= s.B; i++ {
				pos = append(pos, i)
			}
		}
	} else {
		for j := len(f.Segs) - 1; j >= 0; j-- {
			for i := f.Segs[j].B; i >= f.Segs[j].A; i-- {
				pos = append(pos, i)
			}
		}
	}
	return pos[f.codonStart()-1:]
}

// codingSeq is the coding-strand sequence of the feature (from codon_start).
func (f Feat) codingSeq(genome string) string {
	pos := f.codingPositions()
	b := make([]byte, len(pos))
	for i, p := range pos {
		c := upper(genome[p-1])
		if f.Reverse {
			c = complementBase(c)
		}
		b[i] = c
	}
	return string(b)
}

// refTranslation translates the coding sequence with the reference genetic code ('X' where
// ambiguous); incomplete trailing codon ignored.
func refTranslation(cds string) string {
	var sb strings.Builder
	for i := 0; i+3 <= len(cds); i += 3 {
		aa := translateAmbig(cds[i : i+3])
		if aa == 0 {
			aa = 'X'
		}
		sb.WriteByte(aa)
	}
	return sb.String()
}

func (f Feat) gbLocation() string {
	seg := func(s Seg) string { return fmt.Sprintf("%d..%d", s.A, s.B) }
	if len(f.Segs) == 1 {
		if f.Reverse {
			return "complement(" + seg(f.Segs[0]) + ")"
		}
		return seg(f.Segs[0])
	}
	var parts []string
	if f.Reverse && f.GbStyle == 1 {
		for j := len(f.Segs) - 1; j >= 0; j-- {
			parts = append(parts, "complement("+seg(f.Segs[j])+")")
		}
		return "join(" + strings.Join(parts, ",") + ")"
	}
	for _, s := range f.Segs {
		parts = append(parts, seg(s))
	}
	loc := "join(" + strings.Join(parts, ",") + ")"
	if f.Reverse {
		loc = "complement(" + loc + ")"
	}
	return loc
}

// renderGenbank writes a minimal flat file: FEATURES (source + one CDS per feature with /gene,
// /codon_start and /translation without the terminal stop) and ORIGIN in the usual 10-base blocks.
func renderGenbank(genome string, feats []Feat) string {
	var sb strings.Builder
	fmt.Fprintf(&sb, "LOCUS       TESTGENOME %d bp    DNA     linear   VRL 01-JAN-2020\n", len(genome))
	sb.WriteString("DEFINITION  synthetic test genome.\n")
	sb.WriteString("FEATURES             Location/Qualifiers\n")
	fmt.Fprintf(&sb, "     source          1..%d\n", len(genome))
	sb.WriteString("                     /organism=\"synthetic\"\n")
	for _, f := range feats {
		fmt.Fprintf(&sb, "     CDS             %s\n", f.gbLocation())
		fmt.Fprintf(&sb, "                     /gene=\"%s\"\n", f.Name)
		fmt.Fprintf(&sb, "                     /codon_start=%d\n", f.codonStart())
		tr := refTranslation(f.codingSeq(genome))
		if len(tr) > 0 {
			tr = tr[:len(tr)-1] // the flat file omits the terminal stop
		}
		fmt.Fprintf(&sb, "                     /translation=\"%s\"\n", tr)
	}
	sb.WriteString("ORIGIN\n")
	g := strings.ToLower(genome)
	for i := 0; i < len(g); i += 60 {
		fmt.Fprintf(&sb, "%9d", i+1)
		for j := i; j < i+60 && j < len(g); j += 10 {
			e := j + 10
			if e > len(g) {
				e = len(g)
			}
			sb.WriteString(" " + g[j:e])
		}
		sb.WriteString("\n")
	}
	sb.WriteString("//\n")
	return sb.String()
}

// gffPhases: phase of each row (ascending genomic order) per the GFF3 specification: the number of
// bases to skip at the 5' end (in coding direction) of the segment to reach the next codon start.
func (f Feat) gffPhases(specPhase bool) []int {
	n := len(f.Segs)
	ph := make([]int, n)
	order := make([]int, n) // segment indices in coding order
	for i := range order {
		if f.Reverse {
			order[i] = n - 1 - i
		} else {
			order[i] = i
		}
	}
	consumed := 0 // coding bases consumed before this segment, counted from the codon_start offset
	for k, si := range order {
		l := f.Segs[si].B - f.Segs[si].A + 1
		if k == 0 {
			ph[si] = f.codonStart() - 1
			consumed = l - ph[si]
		} else {
			if specPhase {
				ph[si] = (3 - consumed%3) % 3
			}
			consumed += l
		}
	}
	return ph
}

// renderGFF writes GFF3 with ##sequence-region, one row per segment (rows of a feature share its
// ID, ascending genomic order) and a ##FASTA section holding the genome.
func renderGFF(genome string, feats []Feat, specPhase bool, withFasta bool) string {
	var sb strings.Builder
	sb.WriteString("##gff-version 3\n")
	fmt.Fprintf(&sb, "##sequence-region ref 1 %d\n", len(genome))
	for i, f := range feats {
		typ := f.GffType
		if typ == "" {
			typ = "CDS"
		}
		strand := "+"
		if f.Reverse {
			strand = "-"
		}
		ph := f.gffPhases(specPhase)
		for k, s := range f.Segs {
			var attrs []string
			if !f.NoID {
				attrs = append(attrs, fmt.Sprintf("ID=f%d", i))
			}
			if f.Name != "" {
				attrs = append(attrs, "Name="+f.Name)
			}
			if len(attrs) == 0 {
				attrs = append(attrs, "Note=unnamed")
			}
			fmt.Fprintf(&sb, "ref\tsynthetic\t%s\t%d\t%d\t.\t%s\t%d\t%s\n", typ, s.A, s.B, strand, ph[k], strings.Join(attrs, ";"))
		}
	}
	if withFasta {
		sb.WriteString("##FASTA\n>ref\n" + genome + "\n")
	}
	return sb.String()
}

func samHeader(refLen int) string {
	return fmt.Sprintf("@HD\tVN:1.6\tSO:unsorted\n@SQ\tSN:ref\tLN:%d\n", refLen)
}

func samRec(name string, flag, pos int, cigar, seq string) string {
	if seq == "" {
		seq = "*"
	}
	return fmt.Sprintf("%s\t%d\tref\t%d\t60\t%s\t*\t0\t0\t%s\t*\n", name, flag, pos, cigar, seq)
}
