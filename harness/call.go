package main

// One gofasta command invocation, executable in-process (instrumented or plain build) and through
// the real CLI binary.

import (
	"bytes"
	"encoding/json"
	"fmt"
	"io"
	"os"
	"path/filepath"
	"sort"
	"strings"
	"time"

	"harness/engine"

	"github.com/virus-evolution/gofasta/pkg/alphabet"
	"github.com/virus-evolution/gofasta/pkg/closest"
	"github.com/virus-evolution/gofasta/pkg/fastaio"
	"github.com/virus-evolution/gofasta/pkg/sam"
	"github.com/virus-evolution/gofasta/pkg/snps"
	"github.com/virus-evolution/gofasta/pkg/updown"
	"github.com/virus-evolution/gofasta/pkg/variants"
	"github.com/virus-evolution/gofasta/pkg/zzvs"
)

type Call struct {
	Cmd string `json:"cmd"` // toma topa samvariants variants snps list topranking closest

	Sam        string `json:"sam,omitempty"`
	Ref        string `json:"ref,omitempty"`   // reference fasta (sam --reference, snps/updown --reference)
	Msa        string `json:"msa,omitempty"`   // variants --msa / snps,list --query alignment
	Anno       string `json:"anno,omitempty"`  // annotation text
	AnnoSuffix string `json:"annosuffix,omitempty"`
	RefID      string `json:"refid,omitempty"` // variants --reference
	Query      string `json:"query,omitempty"`
	Target     string `json:"target,omitempty"`
	QType      string `json:"qtype,omitempty"` // topranking: fasta|csv
	TType      string `json:"ttype,omitempty"`
	Ignore     []string `json:"ignore,omitempty"`

	Threads int  `json:"threads,omitempty"`
	NCPU    int  `json:"ncpu,omitempty"` // answer of runtime.NumCPU in controlled runs (0 -> Threads or 2)
	// operation history inside one process (one controlled run): the same call made once before, with its
	// output discarded (PriorCall) or with every write to its output failing (PriorFailedCall)
	// ToFile: the command's output writer is an *os.File (as in the CLI) instead of an in-memory buffer
	ToFile bool `json:"tofile,omitempty"`
	PriorCall       bool `json:"priorcall,omitempty"`
	PriorFailedCall bool `json:"priorfailedcall,omitempty"`
	Wrap    int  `json:"wrap,omitempty"` // 0 -> -1
	Start   int  `json:"start,omitempty"` // 0 -> -1
	End     int  `json:"end,omitempty"`
	Pad     bool `json:"pad,omitempty"`

	OmitRef   bool `json:"omitref,omitempty"`
	OmitIns   bool `json:"omitins,omitempty"`
	PairDir   bool `json:"pairdir,omitempty"` // toPairAlign: write to a directory instead of stdout
	Dir       string `json:"-"`               // with PairDir: use this (existing) directory and keep it
	Aggregate bool `json:"aggregate,omitempty"`
	Threshold float64 `json:"threshold,omitempty"`
	AppendSNP bool `json:"appendsnp,omitempty"`
	NoRefFile bool `json:"noreffile,omitempty"` // sam variants: take the reference from the annotation
	Stdin     bool `json:"stdin,omitempty"`     // variants: msa from stdin
	HardGaps  bool `json:"hardgaps,omitempty"`

	Measure string  `json:"measure,omitempty"`
	N       int     `json:"n,omitempty"`
	MaxDist float64 `json:"maxdist,omitempty"`
	HasDist bool    `json:"hasdist,omitempty"`
	Table   bool    `json:"table,omitempty"`

	SizeTotal, SizeUp, SizeDown, SizeSide, SizeSame int `json:",omitempty"`
	DistAll, DistUp, DistDown, DistSide, DistPush  int `json:",omitempty"`
	ThreshPair   float32 `json:"threshpair,omitempty"`
	ThreshTarget int     `json:"threshtarget,omitempty"` // 0 -> 10000 unless ThreshTargetSet
	ThreshTargetSet bool `json:"threshtargetset,omitempty"`
	ThreshPairSet bool `json:"threshpairset,omitempty"` // false -> 0.1 default
	NoFill       bool    `json:"nofill,omitempty"`
}

func dflt(v int) int {
	if v == 0 {
		return -1
	}
	return v
}

func (c *Call) threads() int {
	if c.Threads == 0 {
		return 1
	}
	return c.Threads
}

func (c *Call) ncpu() int {
	if c.NCPU != 0 {
		return c.NCPU
	}
	return c.threads()
}

func (c *Call) threshTarget() int {
	if c.ThreshTarget == 0 && !c.ThreshTargetSet {
		return 10000
	}
	return c.ThreshTarget
}
func (c *Call) threshPair() float32 {
	if !c.ThreshPairSet {
		return 0.1
	}
	return c.ThreshPair
}

var stdoutSeq int

// Run invokes the exported entry point in-process. out receives the command's output; for
// toPairAlign the stdout branch is captured by pointing os.Stdout at a scratch file, and the
// directory branch is rendered as "== <file>\n<content>" in sorted file-name order.
func (c *Call) Run(out io.Writer) error {
	switch c.Cmd {
	case "toma":
		return sam.ToMultiAlign(strings.NewReader(c.Sam), out, dflt(c.Wrap), dflt(c.Start), dflt(c.End), c.Pad, c.threads())
	case "topa":
		if c.PairDir {
			dir := c.Dir
			if dir == "" {
				dir = filepath.Join(engine.Scratch(), fmt.Sprintf("pair%d", stdoutSeq))
				stdoutSeq++
				os.MkdirAll(dir, 0755)
				defer os.RemoveAll(dir)
			}
			err := sam.ToPairAlign(strings.NewReader(c.Sam), strings.NewReader(c.Ref), dir, dflt(c.Wrap), dflt(c.Start), dflt(c.End), c.OmitRef, c.OmitIns, c.threads())
			io.WriteString(out, renderDir(dir))
			return err
		}
		p := filepath.Join(engine.Scratch(), "stdout")
		f, e := os.Create(p)
		if e != nil {
			engine.EngineError("%v", e)
		}
		saved := os.Stdout
		os.Stdout = f
		err := func() error {
			defer func() { os.Stdout = saved }()
			return sam.ToPairAlign(strings.NewReader(c.Sam), strings.NewReader(c.Ref), "stdout", dflt(c.Wrap), dflt(c.Start), dflt(c.End), c.OmitRef, c.OmitIns, c.threads())
		}()
		f.Close()
		b, _ := os.ReadFile(p)
		out.Write(b)
		return err
	case "samvariants":
		var ref io.Reader = strings.NewReader(c.Ref)
		return sam.Variants(strings.NewReader(c.Sam), ref, !c.NoRefFile, strings.NewReader(c.Anno), c.AnnoSuffix, out, dflt(c.Start), dflt(c.End), c.Aggregate, c.Threshold, c.AppendSNP, c.threads())
	case "variants":
		return variants.Variants(bytes.NewReader([]byte(c.Msa)), c.Stdin, c.RefID, strings.NewReader(c.Anno), c.AnnoSuffix, out, dflt(c.Start), dflt(c.End), c.Aggregate, c.Threshold, c.AppendSNP, c.threads())
	case "snps":
		return snps.SNPs(strings.NewReader(c.Ref), strings.NewReader(c.Msa), c.HardGaps, c.Aggregate, c.Threshold, out)
	case "list":
		return updown.List(strings.NewReader(c.Ref), strings.NewReader(c.Msa), out)
	case "topranking":
		ign := c.Ignore
		if ign == nil {
			ign = []string{}
		}
		return updown.TopRanking(strings.NewReader(c.Query), strings.NewReader(c.Target), strings.NewReader(c.Ref), out, c.Table,
			c.QType, c.TType, ign, c.SizeTotal, c.SizeUp, c.SizeDown, c.SizeSide, c.SizeSame,
			c.DistAll, c.DistUp, c.DistDown, c.DistSide, c.threshPair(), c.threshTarget(), c.NoFill, c.DistPush)
	case "closest":
		m := c.Measure
		if m == "" {
			m = "raw"
		}
		if c.N > 0 || c.HasDist {
			d := -1.0
			if c.HasDist {
				d = c.MaxDist
			}
			return closest.ClosestN(c.N, d, strings.NewReader(c.Query), strings.NewReader(c.Target), m, out, c.Table, c.Threads)
		}
		return closest.Closest(strings.NewReader(c.Query), strings.NewReader(c.Target), m, out, c.Threads)
	case "readersconc":
		// two FASTA readers of different kinds and gap modes at work at once on the same bytes (c.Msa): the
		// streaming reader with hard gaps and the list reader with soft gaps; each result as decoded text
		res := make([]string, 2)
		done := make(chan int, 2)
		zzvs.Go(func() {
			ch := make(chan fastaio.EncodedFastaRecord, 4)
			cErr := make(chan error, 1)
			cDone := make(chan bool, 1)
			zzvs.Go(func() { fastaio.ReadEncodeAlignment(strings.NewReader(c.Msa), true, ch, cErr, cDone) }, "readersconc")
			var sb strings.Builder
			for fin := false; !fin; {
				which := -1
				var r fastaio.EncodedFastaRecord
				var e error
				if zzvs.Active() {
					which = zzvs.Select("readersconc.sel", false, zzvs.CaseRecv(ch), zzvs.CaseRecv(cErr), zzvs.CaseRecv(cDone))
					switch which {
					case 0:
						r = <-ch
					case 1:
						e = <-cErr
					case 2:
						<-cDone
					}
				} else { // free-running (race pass)
					select {
					case r = <-ch:
						which = 0
					case e = <-cErr:
						which = 1
					case <-cDone:
						which = 2
					}
				}
				switch which {
				case 0:
					fmt.Fprintf(&sb, "%s:%v;", r.ID, r.Seq)
				case 1:
					sb.WriteString("error " + e.Error())
					fin = true
				case 2:
					for len(ch) > 0 {
						r := <-ch
						fmt.Fprintf(&sb, "%s:%v;", r.ID, r.Seq)
					}
					fin = true
				}
			}
			res[0] = "stream/hard " + sb.String()
			zzvs.PreSend(done, "readersconc")
			done <- 0
		}, "readersconc")
		zzvs.Go(func() {
			recs, err := fastaio.ReadEncodeAlignmentToList(strings.NewReader(c.Msa), false)
			var sb strings.Builder
			for _, r := range recs {
				fmt.Fprintf(&sb, "%s:%v;", r.ID, r.Seq)
			}
			if err != nil {
				sb.WriteString("error " + err.Error())
			}
			res[1] = "list/soft " + sb.String()
			zzvs.PreSend(done, "readersconc")
			done <- 1
		}, "readersconc")
		zzvs.Recv(done, "readersconc")
		zzvs.Recv(done, "readersconc")
		io.WriteString(out, strings.Join(res, "\n")+"\n")
		return nil
	case "libconc":
		// the nucleotide-table library functions used from c.Threads goroutines at once (each on its own
		// whitespace-separated sequence of c.Query); results in goroutine-index order
		seqs := strings.Fields(c.Query)
		res := make([]string, len(seqs))
		done := make(chan int, len(seqs))
		for i := range seqs {
			i := i
			zzvs.Go(func() {
				res[i] = libUse(seqs[i])
				zzvs.PreSend(done, "libconc")
				done <- i
			}, "libconc")
		}
		for range seqs {
			zzvs.Recv(done, "libconc")
		}
		io.WriteString(out, strings.Join(res, "\n")+"\n")
		return nil
	}
	engine.EngineError("unknown command %q", c.Cmd)
	return nil
}

// libUse exercises complement / reverse complement (text and encoded forms) and translation of one sequence.
func libUse(seq string) string {
	fr := fastaio.FastaRecord{ID: "x", Description: "x", Seq: seq}
	e := fr.Encode()
	aa, err := alphabet.Translate(seq[:len(seq)/3*3], false)
	es := ""
	if err != nil {
		es = err.Error()
	}
	return strings.Join([]string{fr.Complement().Seq, fr.ReverseComplement().Seq, e.Complement().Decode().Seq, e.ReverseComplement().Decode().Seq,
		e.ReverseComplement().ReverseComplement().Decode().Seq, aa, es}, " ")
}

// libUseModel is what libUse must return, from the reference tables of ref_iupac.go.
func libUseModel(seq string) string {
	comp := []byte(seq)
	for i := range comp {
		comp[i] = c17Comp(comp[i])
	}
	up := strings.ToUpper(seq)
	ucomp := []byte(up)
	for i := range ucomp {
		ucomp[i] = c17Comp(ucomp[i])
	}
	rev := func(b []byte) string {
		o := make([]byte, len(b))
		for i := range b {
			o[len(b)-1-i] = b[i]
		}
		return string(o)
	}
	aa := ""
	for i := 0; i+3 <= len(up); i += 3 {
		a := translateAmbig(up[i : i+3])
		if a == 0 {
			a = 'X'
		}
		aa += string(a)
	}
	return strings.Join([]string{string(comp), rev(comp), string(ucomp), rev(ucomp), up, aa, ""}, " ")
}

func renderDir(dir string) string {
	es, _ := os.ReadDir(dir)
	names := []string{}
	for _, e := range es {
		names = append(names, e.Name())
	}
	sort.Strings(names)
	var sb strings.Builder
	for _, n := range names {
		b, _ := os.ReadFile(filepath.Join(dir, n))
		sb.WriteString("== " + n + "\n")
		sb.Write(b)
	}
	return sb.String()
}

// Obs is the exact observation of one controlled execution.
type Obs struct {
	Outcome string // returned | panic | deadlock
	Err     string // error text ("" = nil)
	HasErr  bool
	Out     string
	Detail  string // panic value / blocked goroutines
}

func (o Obs) String() string {
	return fmt.Sprintf("%s|err=%v:%s|%q", o.Outcome, o.HasErr, o.Err, o.Out)
}

// Ctl runs the call under the controlled scheduler following prefix.
func (c *Call) Ctl(prefix []int) (*zzvs.Result, Obs) {
	return c.CtlW(prefix, nil)
}

// CtlW is Ctl with an interposed writer (fault injection); wrap may be nil.
func (c *Call) CtlW(prefix []int, wrap func(io.Writer) io.Writer) (*zzvs.Result, Obs) {
	var buf bytes.Buffer
	var err error
	var atReturn *string
	r := zzvs.Run(prefix, c.ncpu(), func() {
		c.prior()
		var w io.Writer = &buf
		var f *os.File
		if c.ToFile {
			f = scratchOut()
			w = f
		}
		if wrap != nil {
			w = wrap(w)
		}
		err = c.Run(w)
		if f != nil {
			b, _ := os.ReadFile(f.Name())
			buf.Write(b)
			f.Close()
			os.Remove(f.Name())
		}
		// the output as it is when the command returns (what the unwinding of still-parked goroutines at the
		// end of the controlled run may add - deferred flushes - would be lost at process exit)
		s := buf.String()
		atReturn = &s
	})
	if r.Outcome == "engine-timeout" {
		engine.EngineError("watchdog expired in %s", c.Cmd)
	}
	o := Obs{Outcome: r.Outcome, Out: buf.String()}
	if atReturn != nil {
		o.Out = *atReturn
	}
	if r.Outcome == "returned" && err != nil {
		o.HasErr = true
		o.Err = err.Error()
	}
	if r.Outcome == "panic" {
		o.Detail = r.PanicG + ": " + r.PanicV
	}
	if r.Outcome == "deadlock" {
		o.Detail = strings.Join(r.Blocked, "; ")
	}
	return r, o
}

var scratchSeq int

func scratchOut() *os.File {
	scratchSeq++
	f, err := os.Create(filepath.Join(engine.Scratch(), fmt.Sprintf("out%d", scratchSeq)))
	if err != nil {
		engine.EngineError("%v", err)
	}
	return f
}

type failingWriter struct{}

func (failingWriter) Write(p []byte) (int, error) { return 0, fmt.Errorf("injected: earlier call's output refused") }

// prior makes the earlier call of the history, if the case has one.
func (c *Call) prior() {
	if c.PriorFailedCall {
		c.Run(failingWriter{})
	}
	if c.PriorCall {
		c.Run(io.Discard)
	}
}

// Canon runs the canonical schedule.
func (c *Call) Canon() Obs {
	// (consecutive canonical runs of one worker process form an operation history: shared package-level
	// state is deliberately not re-initialised between them, so a result that depends on an earlier call shows)
	zzvs.KeepState = true
	defer func() { zzvs.KeepState = false }()
	_, o := c.Ctl(nil)
	return o
}

// CLI runs the same invocation through the real binary. Files are written under the scratch
// directory. Returns the observation in the same shape (Outcome "returned" for exit 0/1, "panic"
// for exit 2 with a Go panic trace, "timeout" when the limit expired).
func (c *Call) CLI(extraEnv []string, threads int) (Obs, engine.CLIResult) {
	args, stdin, outfile, cleanup := c.cliArgs(threads)
	defer cleanup()
	r := engine.CLI(stdin, 120*time.Second, extraEnv, args...)
	return c.cliObs(r, outfile), r
}

// CLIStdout runs the invocation without -o, i.e. with the documented default of writing to stdout
// (and, for the commands that document it, reading their main input from stdin).
func (c *Call) CLIStdout(threads int, viaStdin bool) Obs {
	args, stdin, outfile, cleanup := c.cliArgs(threads)
	defer cleanup()
	if outfile == "" || c.PairDir {
		r := engine.CLI(stdin, 120*time.Second, nil, args...)
		return c.cliObs(r, outfile)
	}
	var kept []string
	for i := 0; i < len(args); i++ {
		if args[i] == "-o" && i+1 < len(args) && args[i+1] == outfile {
			i++
			continue
		}
		kept = append(kept, args[i])
	}
	if viaStdin {
		flag := map[string]string{"toma": "-s", "samvariants": "-s", "topa": "-s", "snps": "-q", "list": "-q"}[c.Cmd]
		if flag != "" {
			var k2 []string
			for i := 0; i < len(kept); i++ {
				if kept[i] == flag && i+1 < len(kept) {
					b, _ := os.ReadFile(kept[i+1])
					stdin = string(b)
					i++
					continue
				}
				k2 = append(k2, kept[i])
			}
			kept = k2
		}
	}
	r := engine.CLI(stdin, 120*time.Second, nil, kept...)
	return c.cliObs(r, "")
}

func (c *Call) cliObs(r engine.CLIResult, outfile string) Obs {
	o := Obs{Outcome: "returned"}
	switch {
	case r.TimedOut:
		o.Outcome = "timeout"
	case r.Exit == 0:
	case r.Exit == 1:
		o.HasErr = true
		o.Err = strings.TrimSpace(r.Stdout)
	default:
		o.Outcome = "panic"
		o.Detail = fmt.Sprintf("exit %d: %.300s", r.Exit, r.Stderr)
	}
	if outfile != "" {
		if fi, err := os.Stat(outfile); err == nil && fi.IsDir() {
			o.Out = renderDir(outfile)
		} else {
			b, _ := os.ReadFile(outfile)
			o.Out = string(b)
		}
	} else if r.Exit == 0 {
		o.Out = r.Stdout
	}
	return o
}

var cliSeq int

func (c *Call) cliArgs(threads int) (args []string, stdin string, outfile string, cleanup func()) {
	cliSeq++
	dir := filepath.Join(engine.Scratch(), fmt.Sprintf("cli%d", cliSeq))
	os.MkdirAll(dir, 0755)
	cleanup = func() { os.RemoveAll(dir) }
	w := func(name, content string) string {
		p := filepath.Join(dir, name)
		os.WriteFile(p, []byte(content), 0644)
		return p
	}
	outfile = filepath.Join(dir, "out.txt")
	// the output path already exists and holds more than any output of these runs: it must be replaced, not overwritten in place
	os.WriteFile(outfile, []byte(strings.Repeat("stale content of an earlier, longer run\n", 400)), 0644)
	if threads == 0 {
		threads = c.threads()
	}
	t := fmt.Sprint(threads)
	win := func() {
		if c.Start != 0 {
			args = append(args, "--start", fmt.Sprint(c.Start))
		}
		if c.End != 0 {
			args = append(args, "--end", fmt.Sprint(c.End))
		}
	}
	switch c.Cmd {
	case "toma":
		args = []string{"sam", "toMultiAlign", "-s", w("in.sam", c.Sam), "-o", outfile, "-t", t}
		win()
		if c.Wrap != 0 {
			args = append(args, "--wrap", fmt.Sprint(c.Wrap))
		}
		if c.Pad {
			args = append(args, "--pad")
		}
	case "topa":
		args = []string{"sam", "toPairAlign", "-s", w("in.sam", c.Sam), "-r", w("ref.fasta", c.Ref), "-t", t}
		if c.PairDir {
			outfile = filepath.Join(dir, "pairs")
			os.MkdirAll(outfile, 0755)
			args = append(args, "-o", outfile)
		} else {
			outfile = ""
			args = append(args, "-o", "stdout")
		}
		win()
		if c.Wrap != 0 {
			args = append(args, "--wrap", fmt.Sprint(c.Wrap))
		}
		if c.OmitRef {
			args = append(args, "--omit-reference")
		}
		if c.OmitIns {
			args = append(args, "--skip-insertions")
		}
	case "samvariants":
		args = []string{"sam", "variants", "-s", w("in.sam", c.Sam), "-a", w("anno."+c.AnnoSuffix, c.Anno), "-o", outfile, "-t", t}
		if !c.NoRefFile {
			args = append(args, "-r", w("ref.fasta", c.Ref))
		}
		win()
		if c.Aggregate {
			args = append(args, "--aggregate", "--threshold", fmt.Sprintf("%.17g", c.Threshold))
		}
		if c.AppendSNP {
			args = append(args, "--append-snps")
		}
	case "variants":
		args = []string{"variants", "-a", w("anno."+c.AnnoSuffix, c.Anno), "-o", outfile, "-t", t}
		if c.Stdin {
			stdin = c.Msa
			if cliSeq%2 == 0 {
				args = append(args, "--msa", "stdin") // the documented default, spelled out
			}
		} else {
			args = append(args, "--msa", w("msa.fasta", c.Msa))
		}
		if c.RefID != "" {
			args = append(args, "-r", c.RefID)
		}
		win()
		if c.Aggregate {
			args = append(args, "--aggregate", "--threshold", fmt.Sprintf("%.17g", c.Threshold))
		}
		if c.AppendSNP {
			args = append(args, "--append-snps")
		}
	case "snps":
		args = []string{"snps", "-r", w("ref.fasta", c.Ref), "-q", w("q.fasta", c.Msa), "-o", outfile}
		if c.HardGaps {
			args = append(args, "--hard-gaps")
		}
		if c.Aggregate {
			args = append(args, "--aggregate", "--threshold", fmt.Sprintf("%.17g", c.Threshold))
		}
	case "list":
		args = []string{"updown", "list", "-r", w("ref.fasta", c.Ref), "-q", w("q.fasta", c.Msa), "-o", outfile}
	case "topranking":
		args = []string{"updown", "topranking", "-q", w("q."+c.QType, c.Query), "-t", w("t."+c.TType, c.Target), "-o", outfile}
		if c.QType == "fasta" || c.TType == "fasta" {
			args = append(args, "-r", w("ref.fasta", c.Ref))
		}
		if c.Table {
			args = append(args, "--table")
		}
		if len(c.Ignore) > 0 {
			args = append(args, "--ignore", w("ignore.txt", strings.Join(c.Ignore, "\n\n")+"\n\n")) // (blank lines between and after the IDs)
		}
		for _, kv := range []struct {
			k string
			v int
		}{{"--size-total", c.SizeTotal}, {"--size-up", c.SizeUp}, {"--size-down", c.SizeDown}, {"--size-side", c.SizeSide}, {"--size-same", c.SizeSame},
			{"--dist-all", c.DistAll}, {"--dist-up", c.DistUp}, {"--dist-down", c.DistDown}, {"--dist-side", c.DistSide}, {"--dist-push", c.DistPush}} {
			if kv.v != 0 {
				args = append(args, kv.k, fmt.Sprint(kv.v))
			}
		}
		if c.ThreshPairSet {
			args = append(args, "--threshold-pair", fmt.Sprint(c.ThreshPair))
		}
		if c.ThreshTargetSet || c.ThreshTarget != 0 {
			args = append(args, "--threshold-target", fmt.Sprint(c.ThreshTarget))
		}
		if c.NoFill {
			args = append(args, "--no-fill")
		}
	case "closest":
		args = []string{"closest", "--query", w("q.fasta", c.Query), "--target", w("t.fasta", c.Target), "-o", outfile, "-t", t}
		if c.Measure != "" {
			args = append(args, "-m", c.Measure)
		}
		if c.N > 0 {
			args = append(args, "-n", fmt.Sprint(c.N))
		}
		if c.HasDist {
			args = append(args, "-d", fmt.Sprintf("%.17g", c.MaxDist))
		}
		if c.Table {
			args = append(args, "--table")
		}
	default:
		engine.EngineError("cliArgs: unknown command %q", c.Cmd)
	}
	return
}

func mustJSON(s string, v interface{}) {
	if err := json.Unmarshal([]byte(s), v); err != nil {
		engine.EngineError("bad case json: %v", err)
	}
}

func renameFile(from, to string) {
	if err := os.Rename(from, to); err != nil {
		engine.EngineError("rename: %v", err)
	}
}
