package main

// C09 — updown topranking gives identical results for CSV and FASTA inputs.
// Relational (no oracle): the four input-type combinations must be byte-identical, one row per query
// in query order; plus Engine S on the result-slot hand-off for several queries.

import (
	"encoding/json"
	"fmt"
	"strings"

	"harness/engine"
)

// 12 columns: SNPs at positions 2 and 10/11 sort differently as strings ("A10C" < "A2C") than by position
var c09QMenu = []string{"CCCAAAAAAAAA", "CCAAAAANAAAA", "AAAAAAAAAAAA", "CGAANNAAAAAA", "ACAAGAAAACAA", "ATAAAAAAAGCA"}
var c09TMenu = []string{"AAAAAAAAAAAA", "CCAAAAAAAAAA", "CCCGAAAAAAAA", "CAAGAAAAAAAA", "CCCAAAAAAAAA", "NNCAAAAAAAAA", "CGAAGAANAAAA", "ACAAAAAAANAA", "ANAAAAAAACCA"}

const c09Ref = "AAAAAAAAAAAA"

// targets of the Engine S scenarios: the last two tie on everything (a backlog of two records at the end of the input needs the first one to arrive last), so their output order is the
// file order that the parallel FASTA conversion has to restore
var c09STargets = []string{"CCCGAAAAAAAA", "CCAAAAAAAAAA", "CCAAAAAAAAAA"}

func c09Options() []udOpts {
	base := []udOpts{{SizeTotal: 3}, {SizeUp: 1, SizeSide: 2, NoFill: true}, {DistAll: 2}, {DistPush: 1}, {SizeTotal: 5, DistAll: 3}, {DistUp: 1, DistDown: 2, DistSide: 3}}
	for i := range base {
		base[i].ThreshPair, base[i].ThreshTarget = 0.5, 10000
	}
	base = append(base, udOpts{SizeTotal: 4, ThreshPair: 0, ThreshTarget: 1}, udOpts{DistAll: 4, ThreshPair: 0.25, ThreshTarget: 2, Ignore: []string{"t1"}})
	return base
}

func c09Check(c c08Case, res *engine.JobResult) {
	res.Evals++
	var outs [4]Obs
	combos := [4][2]string{{"fasta", "fasta"}, {"csv", "csv"}, {"csv", "fasta"}, {"fasta", "csv"}}
	for i, cb := range combos {
		cc := c
		cc.QType, cc.TType = cb[0], cb[1]
		call := cc.call()
		outs[i] = call.Canon()
	}
	ff := outs[0]
	if ff.Outcome != "returned" || ff.HasErr {
		res.Count("fasta_fasta_run_failed_not_judged", 1)
		return
	}
	res.Nontrivial++
	for i := 1; i < 4; i++ {
		if outs[i].String() != ff.String() {
			cause := "csv-vs-fasta:" + combos[i][0] + "-query/" + combos[i][1] + "-target"
			if len(c.Queries) > 1 && combos[i][0] == "csv" {
				cause = "csv-query-rows"
			}
			res.Violate(cause, fmt.Sprintf("queries %v targets %v options %+v table=%v: fasta/fasta gives %s; %s query / %s target gives %s", c.Queries, c.Targets, c.Opts, c.Table, ff.String(), combos[i][0], combos[i][1], outs[i].String()), c)
			return
		}
	}
	// one row per query, in query-file order
	if !c.Table {
		_, order, ok := udParseList(ff.Out)
		good := ok && len(order) == len(c.Queries)
		for i := 0; good && i < len(order); i++ {
			if order[i] != c.Queries[i].Name {
				good = false
			}
		}
		if !good {
			res.Violate("rows-per-query", fmt.Sprintf("expected one row per query in order %v, got %q", c.Queries, ff.Out), c)
		}
	}
}

// c09Scenarios: Engine S on the result-slot hand-off (all arrival orders of the per-query results).
func c09Scenarios(tier string) []Scenario {
	var out []Scenario
	mk := func(nq int, qt, tt string, o udOpts, mode string) {
		var qs, ts []udRec
		for i := 0; i < nq; i++ {
			qs = append(qs, udRec{fmt.Sprintf("q%d", i), c09QMenu[i]})
		}
		for i := 0; i < 3; i++ {
			ts = append(ts, udRec{fmt.Sprintf("t%d", i), c09STargets[i]})
		}
		c := c08Case{Ref: c09Ref, Queries: qs, Targets: ts, Opts: o, QType: qt, TType: tt}
		call := c.call()
		call.NCPU = 2
		out = append(out, Scenario{Name: fmt.Sprintf("topranking-%dq-%s-%s-push%d", nq, qt, tt, o.DistPush), Family: "slots-" + qt + "-" + tt, Call: call, Mode: mode})
	}
	o1 := udOpts{SizeTotal: 3, ThreshPair: 0.5, ThreshTarget: 10000}
	o2 := udOpts{DistPush: 1, ThreshPair: 0.5, ThreshTarget: 10000}
	for _, cb := range [][2]string{{"csv", "csv"}, {"csv", "fasta"}, {"fasta", "csv"}} {
		m2 := "U"
		if cb[1] == "fasta" {
			m2 = "P2M1" // the fasta target path adds the parallel conversion stage: bounded
			if tier == "thorough" {
				m2 = "U"
			}
		}
		mk(2, cb[0], cb[1], o1, m2)
		mk(2, cb[0], cb[1], o2, m2)
		m3 := "P1M1"
		if tier == "thorough" {
			m3 = "P2M1"
		}
		mk(3, cb[0], cb[1], o1, m3)
	}
	return out
}

var c09FF = map[string]string{}

func c09Judge(sc *Scenario, st *engine.Stats, res *engine.JobResult) {
	// expected observation: the fasta/fasta run of the same data on the canonical schedule
	want, ok := c09FF[sc.Name]
	if !ok {
		ff := sc.Call
		// rebuild fasta inputs from the scenario's name is not possible; the scenario stores them in Ref-keyed cache instead
		ff.QType, ff.TType = "fasta", "fasta"
		ff.Query, ff.Target = c09ScenarioFasta[sc.Name][0], c09ScenarioFasta[sc.Name][1]
		o := ff.Canon()
		want = o.String()
		c09FF[sc.Name] = want
	}
	for obs, n := range st.Outcomes {
		if obs != want {
			cause := sc.Family + ":differs-from-fasta-fasta"
			if strings.Contains(sc.Family, "slots-csv") {
				cause = "csv-query-rows"
			}
			res.Violate(cause, fmt.Sprintf("scenario %s: %d execution(s) give %s; the fasta/fasta run gives %s", sc.Name, n, obs, want), schedCase{Scenario: *sc, Trace: st.FirstTrace[obs], Obs: obs, Expect: want})
		}
	}
}

var c09ScenarioFasta = map[string][2]string{}

func init() {
	var scens []Scenario
	get := func(tier string) []Scenario {
		if scens == nil {
			scens = c09Scenarios(tier)
			for _, s := range scens {
				var nq int
				fmt.Sscanf(s.Name, "topranking-%dq", &nq)
				var qs, ts []udRec
				for i := 0; i < nq; i++ {
					qs = append(qs, udRec{fmt.Sprintf("q%d", i), c09QMenu[i]})
				}
				for i := 0; i < 3; i++ {
					ts = append(ts, udRec{fmt.Sprintf("t%d", i), c09STargets[i]})
				}
				c09ScenarioFasta[s.Name] = [2]string{udFasta(qs), udFasta(ts)}
			}
		}
		return scens
	}
	register(&Prop{
		ID:    "C09",
		Level: "model_checking",
		Rule: "bounded-exhaustive relational check on the real code: every query set of 1..2 sequences (plus all 3-sequence sets over the first three) from a 6-sequence menu x every target file of 1..3 sequences from a 9-sequence menu (12 columns, so that SNP lists sort differently as strings than by position) (SNPs, shared SNPs, ambiguity tracts, a reference-identical target at every position) x 8 option sets (sizes, no-fill, dist-all, per-bin dists, dist-push, thresholds, ignore) x list/--table: the outputs for fasta/fasta, csv/csv, csv/fasta and fasta/csv (CSV produced by the real `updown list`) must be byte-identical with one row per query in query order; " +
			"plus Engine S: 2 queries (all interleavings) and 3 queries (bounded preemptions) for the three CSV-involving combinations: every arrival order of the per-query results must give the fasta/fasta output. A case is one (queries, targets, options); non-trivial = the fasta/fasta run succeeded; each generated once",
		Assumptions: []string{
			"the relation compares runs of the real code; whether the fasta/fasta result itself is right is C08's subject",
		},
		Bounds: func(tier string) map[string]interface{} {
			return map[string]interface{}{"query_menu": c09QMenu, "target_menu": c09TMenu, "option_sets": len(c09Options()), "engine_S_scenarios": len(get(tier))}
		},
		Plan: func(tier string) ([]string, *engine.JobResult) {
			jobs, pre := planSched(get(tier), 1, c09Judge)
			for s := 0; s < 32; s++ {
				jobs = append(jobs, fmt.Sprintf("rel:%d/32", s))
			}
			jobs = append(jobs, "cli")
			return jobs, pre
		},
		Exec: func(tier, job string) *engine.JobResult {
			if strings.HasPrefix(job, "case:") {
				res := &engine.JobResult{}
				var sc schedCase
				if err := json.Unmarshal([]byte(job[5:]), &sc); err == nil && sc.Scenario.Name != "" {
					_, obs := sc.Scenario.execFn()(sc.Trace)
					if sc.Expect != "" && obs != sc.Expect {
						res.Violate("replayed:differs-from-fasta-fasta", obs+" vs "+sc.Expect, sc)
					}
					res.Evals = 1
					return res
				}
				var c c08Case
				mustJSON(job[5:], &c)
				c09Check(c, res)
				return res
			}
			if strings.HasPrefix(job, "{") {
				get(tier)
				return execSched(get(tier), job, c09Judge)
			}
			res := &engine.JobResult{}
			defer func() { res.Transitions = res.States }()
			if job == "cli" {
				// the four combinations through the real binary on a slice
				k := 0
				seqsOver(len(c09TMenu), 2, func(ti []int) {
					k++
					if k%5 != engine.Seed()%5 {
						return
					}
					var ts []udRec
					for i, x := range ti {
						ts = append(ts, udRec{fmt.Sprintf("t%d", i), c09TMenu[x]})
					}
					qs := []udRec{{"q0", c09QMenu[k%5]}, {"q1", c09QMenu[(k+2)%5]}}
					o := c09Options()[k%len(c09Options())]
					var first string
					for i, cb := range [4][2]string{{"fasta", "fasta"}, {"csv", "csv"}, {"csv", "fasta"}, {"fasta", "csv"}} {
						c := c08Case{Ref: c09Ref, Queries: qs, Targets: ts, Opts: o, Table: k%2 == 0, QType: cb[0], TType: cb[1]}
						call := c.call()
						ob, _ := call.CLI(nil, 0)
						res.Evals++
						res.Validated++
						if i == 0 {
							first = ob.String()
						} else if ob.String() != first {
							res.Violate("csv-vs-fasta:binary", fmt.Sprintf("real binary: %s/%s gives %s, fasta/fasta gives %s", cb[0], cb[1], ob.String(), first), c)
						}
					}
				})
				return res
			}
			var s, n int
			fmt.Sscanf(job, "rel:%d/%d", &s, &n)
			// query sets
			var qsets [][]udRec
			seqsOver(len(c09QMenu), 2, func(ix []int) {
				var qs []udRec
				for i, x := range ix {
					qs = append(qs, udRec{fmt.Sprintf("q%d", i), c09QMenu[x]})
				}
				qsets = append(qsets, qs)
			})
			seqsOver(3, 3, func(ix []int) {
				if len(ix) == 3 {
					var qs []udRec
					for i, x := range ix {
						qs = append(qs, udRec{fmt.Sprintf("q%d", i), c09QMenu[x]})
					}
					qsets = append(qsets, qs)
				}
			})
			opts := c09Options()
			idx := 0
			nodes := seqsOver(len(c09TMenu), 3, func(ti []int) {
				var ts []udRec
				for i, x := range ti {
					ts = append(ts, udRec{fmt.Sprintf("t%d", i), c09TMenu[x]})
				}
				for qi, qs := range qsets {
					idx++
					if idx%n != s {
						continue
					}
					// rotate through the option sets; all of them for the smallest files
					no := 2
					if len(ts) == 1 || tier == "thorough" {
						no = len(opts)
					}
					for k := 0; k < no; k++ {
						o := opts[(idx+k*3)%len(opts)]
						if no == len(opts) {
							o = opts[k]
						}
						c := c08Case{Ref: c09Ref, Queries: qs, Targets: ts, Opts: o, Table: (qi+k)%2 == 0}
						c09Check(c, res)
						res.States++
						if idx == 640 && k == 0 {
							res.Sample(c)
						}
					}
				}
			})
			if s == 0 {
				res.States += nodes
			}
			return res
		},
	})
}
