package main

// C10 — updown list is a lossless summary of each sequence relative to the reference.

import (
	"fmt"
	"strings"

	"harness/engine"
)

type c10Case struct {
	Ref  string   `json:"ref"`
	Rows []string `json:"rows"`
}

// c10Expect: the row the statement prescribes for one sequence.
func c10Expect(name, ref, q string) string {
	var snps, ambs []string
	ambCount := 0
	runStart := -1
	closeRun := func(end int) {
		if runStart < 0 {
			return
		}
		if runStart == end {
			ambs = append(ambs, fmt.Sprint(runStart+1))
		} else {
			ambs = append(ambs, fmt.Sprintf("%d-%d", runStart+1, end+1))
		}
		runStart = -1
	}
	for i := 0; i < len(q); i++ {
		if isACGT(q[i]) {
			closeRun(i - 1)
			mr, _ := maskOf(ref[i], false)
			mq, _ := maskOf(q[i], false)
			if mr&mq == 0 {
				snps = append(snps, fmt.Sprintf("%c%d%c", upper(ref[i]), i+1, upper(q[i])))
			}
		} else {
			ambCount++
			if runStart < 0 {
				runStart = i
			}
		}
	}
	closeRun(len(q) - 1)
	return fmt.Sprintf("%s,%s,%s,%d,%d", name, strings.Join(snps, "|"), strings.Join(ambs, "|"), len(snps), ambCount)
}

func c10Check(c c10Case, res *engine.JobResult, attribute bool) {
	recs := []string{}
	for i, r := range c.Rows {
		recs = append(recs, fmt.Sprintf("s%d", i), r)
	}
	call := Call{Cmd: "list", Ref: fastaOf("ref", c.Ref), Msa: fastaOf(recs...), NCPU: 2}
	o := call.Canon()
	res.Evals += len(c.Rows)
	if o.Outcome != "returned" || o.HasErr {
		if attribute && len(c.Rows) > 1 {
			for _, r := range c.Rows {
				c10Check(c10Case{c.Ref, []string{r}}, res, false)
			}
			return
		}
		res.Violate("list:"+o.Outcome+"-on-valid-input", fmt.Sprintf("valid alignment not processed: %s %s", o.String(), o.Detail), c)
		return
	}
	lines := strings.Split(strings.TrimSuffix(o.Out, "\n"), "\n")
	if len(lines) != len(c.Rows)+1 || lines[0] != "query,SNPs,ambiguities,SNPcount,ambcount" {
		res.Violate("list:rows", fmt.Sprintf("expected header + %d rows, got %d lines", len(c.Rows), len(lines)), c)
		return
	}
	for i, r := range c.Rows {
		want := c10Expect(fmt.Sprintf("s%d", i), c.Ref, r)
		if strings.Trim(r, "ACGTacgt") != "" || strings.Count(want, ",,") < 1 {
			res.Nontrivial++
		}
		if lines[i+1] == want {
			continue
		}
		if attribute && len(c.Rows) > 1 {
			before := res.Counters["violations_total"]
			c10Check(c10Case{c.Ref, []string{r}}, res, false)
			if res.Counters["violations_total"] == before {
				lo := i - 2
				if lo < 0 {
					lo = 0
				}
				res.Violate("list:row-in-context", fmt.Sprintf("row %d of a %d-row file: got %q want %q (correct when alone: rows influence each other)", i, len(c.Rows), lines[i+1], want), c10Case{c.Ref, c.Rows[lo : i+1]})
			}
			continue
		}
		gf, wf := strings.Split(lines[i+1], ","), strings.Split(want, ",")
		cause := "list:wrong-row"
		if len(gf) == 5 {
			switch {
			case gf[1] != wf[1]:
				cause = "list:snps"
			case gf[2] != wf[2]:
				cause = "list:ambiguity-ranges"
			case gf[3] != wf[3] || gf[4] != wf[4]:
				cause = "list:counts"
			}
		}
		res.Violate(cause, fmt.Sprintf("reference %q sequence %q: got %q want %q", c.Ref, r, lines[i+1], want), c10Case{c.Ref, []string{r}})
	}
}

const c10Alpha = "ACRN-"

func c10Refs(L int) []string {
	return []string{strings.Repeat("A", L), strings.Repeat("AC", L)[:L], strings.Repeat("ARN-CG", L)[:L]}
}

func init() {
	maxL := func(tier string) int {
		if tier == "thorough" {
			return 9
		}
		return 6
	}
	register(&Prop{
		ID:    "C10",
		Level: "model_checking",
		Rule: "bounded-exhaustive enumeration against a direct transcription of the statement: every sequence over {A,C,R,N,-} of length 1..6 (thorough 9) against three references of the same length (all-A, alternating A/C, and one containing R, N and '-'), up to 2000 rows per call (so rows also follow every other row), plus lower-case and other IUPAC symbols on length-3 sequences. A case is one (reference, sequence); non-trivial = the sequence has an ambiguity or a SNP; each generated once",
		Assumptions: []string{
			"expected row: ambiguity ranges = maximal runs of non-A/C/G/T columns (1-based inclusive, 'a' or 'a-b'); SNPs = A/C/G/T columns whose base is not in the reference symbol's set; both counts",
			"each call runs on the canonical (run-to-block) schedule with NumCPU=2, in which workers run ahead of the writer as far as the channel buffers allow",
		},
		Bounds: func(tier string) map[string]interface{} {
			return map[string]interface{}{"alphabet": c10Alpha, "max_length": maxL(tier), "references": c10Refs(6)}
		},
		Plan: func(tier string) ([]string, *engine.JobResult) {
			var jobs []string
			for L := 1; L <= maxL(tier); L++ {
				tot := 1
				for i := 0; i < L; i++ {
					tot *= 5
				}
				for ri := 0; ri < 3; ri++ {
					for b := 0; b < tot; b += 2000 {
						jobs = append(jobs, fmt.Sprintf("seq:%d:%d:%d", L, ri, b))
					}
				}
			}
			jobs = append(jobs, "symbols", "cli")
			// biggest first
			for i, j := 0, len(jobs)-1; i < j; i, j = i+1, j-1 {
				jobs[i], jobs[j] = jobs[j], jobs[i]
			}
			return jobs, nil
		},
		Exec: func(tier, job string) *engine.JobResult {
			res := &engine.JobResult{}
			defer func() { res.Transitions = res.States }()
			if strings.HasPrefix(job, "case:") {
				var c c10Case
				mustJSON(job[5:], &c)
				c10Check(c, res, true)
				return res
			}
			nth := func(L, v int, alpha string) string {
				b := make([]byte, L)
				for i := L - 1; i >= 0; i-- {
					b[i] = alpha[v%len(alpha)]
					v /= len(alpha)
				}
				return string(b)
			}
			p := strings.Split(job, ":")
			switch p[0] {
			case "seq":
				var L, ri, b0 int
				fmt.Sscan(p[1], &L)
				fmt.Sscan(p[2], &ri)
				fmt.Sscan(p[3], &b0)
				tot := 1
				for i := 0; i < L; i++ {
					tot *= 5
				}
				var rows []string
				for v := b0; v < b0+2000 && v < tot; v++ {
					rows = append(rows, nth(L, v, c10Alpha))
				}
				c := c10Case{c10Refs(L)[ri], rows}
				c10Check(c, res, true)
				res.States += len(rows) + 1
				if L == 4 && ri == 2 {
					res.Sample(c10Case{c.Ref, rows[100:103]})
				}
			case "symbols":
				al := alphabet17 + "acgtrn"
				var rows []string
				for v := 0; v < len(al)*len(al)*len(al); v++ {
					rows = append(rows, nth(3, v, al))
				}
				for _, ref := range []string{"AAA", "ACG", "RN-", "acg"} {
					for b := 0; b < len(rows); b += 2000 {
						e := b + 2000
						if e > len(rows) {
							e = len(rows)
						}
						c10Check(c10Case{ref, rows[b:e]}, res, true)
						res.States += e - b + 1
					}
				}
			case "cli":
				for L := 1; L <= 4; L++ {
					tot := 1
					for i := 0; i < L; i++ {
						tot *= 5
					}
					for ri, ref := range c10Refs(L) {
						var rows []string
						recs := []string{}
						want := "query,SNPs,ambiguities,SNPcount,ambcount\n"
						for v := 0; v < tot; v++ {
							r := nth(L, v, c10Alpha)
							rows = append(rows, r)
							recs = append(recs, fmt.Sprintf("s%d", v), r)
							want += c10Expect(fmt.Sprintf("s%d", v), ref, r) + "\n"
						}
						call := Call{Cmd: "list", Ref: fastaOf("ref", ref), Msa: fastaOf(recs...)}
						ob, _ := call.CLI(nil, 0)
						res.Evals += len(rows)
						res.Validated += len(rows)
						if ob.Outcome != "returned" || ob.HasErr || ob.Out != want {
							res.Violate("list:binary-differs", fmt.Sprintf("real binary, reference %d of length %d: %s", ri, L, firstDiff(ob.Out, want)), c10Case{ref, rows})
						}
					}
				}
			}
			return res
		},
	})
}
