package main

// C04 — variants loses no nucleotide difference and every aa call is a true translation.

import (
	"fmt"
	"strings"

	"harness/engine"
)

type c04Case struct {
	Genome    string   `json:"genome"`
	Feats     []Feat   `json:"features"`
	Format    string   `json:"format"` // gb | gff
	RefRow    string   `json:"refrow"`
	QRows     []string `json:"queryrows"`
	AppendSNP bool     `json:"appendsnp"`
	Via       string   `json:"via,omitempty"` // "" = variants (msa), "sam" = sam variants
}

func (c c04Case) anno() string {
	if c.Format == "gff" {
		return renderGFF(c.Genome, c.Feats, true, true)
	}
	return renderGenbank(c.Genome, c.Feats)
}

func (c c04Case) call() Call {
	recs := []string{"ref", c.RefRow}
	for i, q := range c.QRows {
		recs = append(recs, fmt.Sprintf("q%d", i), q)
	}
	return Call{Cmd: "variants", Msa: fastaOf(recs...), RefID: "ref", Anno: c.anno(), AnnoSuffix: c.Format, AppendSNP: c.AppendSNP, Threads: 2}
}

func c04Check(c c04Case, res *engine.JobResult, attribute bool) {
	call := c.call()
	o := call.Canon()
	res.Evals += len(c.QRows)
	if o.Outcome != "returned" || o.HasErr {
		if attribute && len(c.QRows) > 1 {
			for _, q := range c.QRows {
				cc := c
				cc.QRows = []string{q}
				c04Check(cc, res, false)
			}
			return
		}
		res.Violate("variants:"+o.Outcome+"-on-valid-input", fmt.Sprintf("valid input not processed: %s %s", o.String(), o.Detail), c)
		return
	}
	rows, order, ok := parseVariantRows(o.Out)
	if !ok || len(order) != len(c.QRows) {
		res.Violate("variants:rows", fmt.Sprintf("expected %d rows, got %q", len(c.QRows), o.Out), c)
		return
	}
	for i, q := range c.QRows {
		name := fmt.Sprintf("q%d", i)
		if order[i] != name {
			res.Violate("variants:row-order", fmt.Sprintf("row %d is %s", i, order[i]), c)
			return
		}
		m := modelVariants(c.Feats, c.RefRow, q)
		if len(m.Disjoint) > 0 {
			res.Nontrivial++
		}
		cause, msg := judgeVariants(m, rows[name], c.AppendSNP, c.Feats)
		if cause != "" {
			cc := c
			cc.QRows = []string{q}
			res.Violate(cause, fmt.Sprintf("%s annotation, features %s, ref %q query %q --append-snps=%v: %s", c.Format, describeFeats(c.Feats), c.RefRow, q, c.AppendSNP, msg), cc)
		}
	}
}

func describeFeats(fs []Feat) string {
	var p []string
	for _, f := range fs {
		n := f.Name
		if n == "" {
			n = "(unnamed)"
		}
		p = append(p, n+"="+f.gbLocation())
	}
	return strings.Join(p, ",")
}

// ---- layer a: codon level ----

func allCodons(alpha string) []string {
	var out []string
	for i := 0; i < len(alpha); i++ {
		for j := 0; j < len(alpha); j++ {
			for k := 0; k < len(alpha); k++ {
				out = append(out, string([]byte{alpha[i], alpha[j], alpha[k]}))
			}
		}
	}
	return out
}

func c04CodonJob(refCodon string, reverse bool, format string, alpha string, res *engine.JobResult) {
	// genome: C + codon + TAA + C on the coding strand
	coding := "C" + refCodon + "TAA" + "C"
	genome := coding
	feat := Feat{Name: "orfA", Segs: []Seg{{2, 7}}}
	if reverse {
		genome = revcompStr(coding)
		feat.Reverse = true
	}
	var qrows []string
	for _, qc := range allCodons(alpha) {
		qcoding := "C" + qc + "TAA" + "C"
		if reverse {
			// complement each symbol, reverse order; '-' and '?' stay as they are
			b := []byte(qcoding)
			r := make([]byte, len(b))
			for i := range b {
				r[len(b)-1-i] = complementBase(b[i])
			}
			qrows = append(qrows, string(r))
		} else {
			qrows = append(qrows, qcoding)
		}
	}
	c := c04Case{Genome: genome, Feats: []Feat{feat}, Format: format, RefRow: genome, QRows: qrows, AppendSNP: true}
	c04Check(c, res, false)
	res.States += len(qrows) + 1
}

// ---- layer b: layouts ----

const c04Genome = "ATGAAATAGTTAATCCAT" // orfA 1..9 = M K *; minus-strand gene at 10..18 = M D *

type c04Layout struct {
	Name    string
	Feats   []Feat
	Formats []string
}

func c04Layouts() []c04Layout {
	both := []string{"gb", "gff"}
	return []c04Layout{
		{"forward", []Feat{{Name: "orfA", Segs: []Seg{{1, 9}}}}, both},
		{"reverse", []Feat{{Name: "orfR", Segs: []Seg{{10, 18}}, Reverse: true}}, both},
		{"join-forward", []Feat{{Name: "orfJ", Segs: []Seg{{1, 3}, {7, 9}}}}, both},
		{"complement-join", []Feat{{Name: "orfRJ", Segs: []Seg{{10, 12}, {16, 18}}, Reverse: true}}, both},
		{"join-of-complements", []Feat{{Name: "orfRJ", Segs: []Seg{{10, 12}, {16, 18}}, Reverse: true, GbStyle: 1}}, []string{"gb"}},
		{"overlapping-named", []Feat{{Name: "orfA", Segs: []Seg{{1, 9}}}, {Name: "orfB", Segs: []Seg{{4, 9}}}}, both},
		{"join-not-ascending", []Feat{{Name: "orfO", Segs: []Seg{{16, 18}, {7, 9}}}}, both},
		{"forward-and-reverse", []Feat{{Name: "orfA", Segs: []Seg{{1, 9}}}, {Name: "orfR", Segs: []Seg{{10, 18}}, Reverse: true}}, both},
		{"named-in-unnamed-cds", []Feat{{Name: "", Segs: []Seg{{1, 9}}}, {Name: "pepK", Segs: []Seg{{4, 6}}, GffType: "mature_protein_region_of_CDS"}}, []string{"gff"}},
		{"unnamed-cds-only", []Feat{{Name: "", Segs: []Seg{{1, 9}}}}, []string{"gff"}},
		{"unnamed-no-id", []Feat{{Name: "", Segs: []Seg{{1, 9}}, NoID: true}, {Name: "orfR", Segs: []Seg{{10, 18}}, Reverse: true}}, []string{"gff"}},
		{"no-features", nil, []string{"gb"}},
	}
}

const c04Subs = "ACGTRN-"

// c04Queries: every single substitution and every pair of substitutions over c04Subs.
func c04Queries(genome string, pairs bool) []string {
	var out []string
	n := len(genome)
	for i := 0; i < n; i++ {
		for _, s := range []byte(c04Subs) {
			if s == genome[i] {
				continue
			}
			b := []byte(genome)
			b[i] = s
			out = append(out, string(b))
			if !pairs {
				continue
			}
			for j := i + 1; j < n; j++ {
				for _, t := range []byte(c04Subs) {
					if t == genome[j] {
						continue
					}
					d := append([]byte{}, b...)
					d[j] = t
					out = append(out, string(d))
				}
			}
		}
	}
	return out
}

func c04LayoutJob(li int, format string, appendSNP bool, tier string, res *engine.JobResult) {
	l := c04Layouts()[li]
	qs := c04Queries(c04Genome, true)
	c := c04Case{Genome: c04Genome, Feats: l.Feats, Format: format, RefRow: c04Genome, QRows: qs, AppendSNP: appendSNP}
	c04Check(c, res, false)
	res.States += len(qs) + 1
	if li == 5 && appendSNP {
		res.Sample(c04Case{Genome: c04Genome, Feats: l.Feats, Format: format, RefRow: c04Genome, QRows: qs[100:103], AppendSNP: true})
	}
	// indels: every single insertion / deletion of 1-2 bases, each with one substitution elsewhere
	n := len(c04Genome)
	for p := 0; p <= n; p++ {
		for L := 1; L <= 2; L++ {
			refRow := c04Genome[:p] + strings.Repeat("-", L) + c04Genome[p:]
			var rows []string
			for _, q := range c04Queries(c04Genome, false) {
				rows = append(rows, q[:p]+strings.Repeat("G", L)+q[p:])
			}
			rows = append(rows, c04Genome[:p]+strings.Repeat("G", L)+c04Genome[p:])
			c04Check(c04Case{Genome: c04Genome, Feats: l.Feats, Format: format, RefRow: refRow, QRows: rows, AppendSNP: appendSNP}, res, false)
			res.States += len(rows) + 1
		}
	}
	for p := 0; p < n; p++ {
		for L := 1; L <= 2 && p+L <= n; L++ {
			var rows []string
			for _, q := range c04Queries(c04Genome, false) {
				rows = append(rows, q[:p]+strings.Repeat("-", L)+q[p+L:])
			}
			c04Check(c04Case{Genome: c04Genome, Feats: l.Feats, Format: format, RefRow: c04Genome, QRows: rows, AppendSNP: appendSNP}, res, false)
			res.States += len(rows) + 1
		}
	}
}

// c04SamJob: the layouts' substitution/indel queries as single-record SAM alignments through
// `sam variants` (consecutive queries carry equally long insertions at different sites).
func c04SamJob(li int, format string, res *engine.JobResult) {
	l := c04Layouts()[li]
	n := len(c04Genome)
	type pr struct{ ref, q string }
	var pairs []pr
	for L := 1; L <= 2; L++ { // equal insertion lengths consecutively: the alignment width stays the same
		for p := 0; p <= n; p += 2 {
			qs := c04Queries(c04Genome, false)
			q := qs[(p*7+L)%len(qs)]
			pairs = append(pairs, pr{c04Genome[:p] + strings.Repeat("-", L) + c04Genome[p:], q[:p] + strings.Repeat("G", L) + q[p:]})
		}
	}
	for p := 1; p+2 < n; p += 3 {
		qs := c04Queries(c04Genome, false)
		q := qs[(p*11)%len(qs)]
		pairs = append(pairs, pr{c04Genome, q[:p] + "--" + q[p+2:]})
	}
	var recs []SamRec
	for i, x := range pairs {
		var cols []alnCol
		var seq []byte
		for k := 0; k < len(x.ref); k++ {
			switch {
			case x.ref[k] == '-':
				cols = append(cols, 'I')
				seq = append(seq, x.q[k])
			case x.q[k] == '-':
				cols = append(cols, 'D')
			default:
				cols = append(cols, 'M')
				c := x.q[k]
				if c == 'R' {
					c = 'R'
				}
				seq = append(seq, c)
			}
		}
		recs = append(recs, SamRec{Name: fmt.Sprintf("q%d", i), Pos: 1, Cigar: opsOf(cols), Seq: string(seq)})
	}
	for _, ap := range []bool{true, false} {
		cs := c04Case{Genome: c04Genome, Feats: l.Feats, Format: format, AppendSNP: ap}
		call := Call{Cmd: "samvariants", Sam: samText(n, recs), Ref: fastaOf("ref", c04Genome), Anno: cs.anno(), AnnoSuffix: format, AppendSNP: ap, Threads: 1}
		o := call.Canon()
		res.Evals += len(pairs)
		res.States += len(pairs)
		if o.Outcome != "returned" || o.HasErr {
			res.Violate("variants:sam-"+o.Outcome+"-on-valid-input", fmt.Sprintf("sam variants fails on layout %s (%s): %s %s", l.Name, format, o.String(), o.Detail), cs)
			continue
		}
		rows, order, ok := parseVariantRows(o.Out)
		if !ok || len(order) != len(pairs) {
			res.Violate("variants:rows", fmt.Sprintf("sam variants: expected %d rows, got %q", len(pairs), o.Out), cs)
			continue
		}
		for i, x := range pairs {
			// '-' in a SAM query cannot occur; the model row uses the pair as aligned
			m := modelVariants(l.Feats, x.ref, x.q)
			if cause, msg := judgeVariants(m, rows[fmt.Sprintf("q%d", i)], ap, l.Feats); cause != "" {
				cc := cs
				cc.RefRow, cc.QRows, cc.Via = x.ref, []string{x.q}, "sam"
				res.Violate(cause, fmt.Sprintf("sam variants, %s annotation, features %s, pair %q / %q (query %d of the file) --append-snps=%v: %s", format, describeFeats(l.Feats), x.ref, x.q, i, ap, msg), cc)
			}
		}
	}
}

func c04CLI(res *engine.JobResult) {
	for li, l := range c04Layouts() {
		for _, f := range l.Formats {
			qs := c04Queries(c04Genome, false)
			c := c04Case{Genome: c04Genome, Feats: l.Feats, Format: f, RefRow: c04Genome, QRows: qs, AppendSNP: (li+engine.Seed())%2 == 0}
			call := c.call()
			ob, _ := call.CLI(nil, 0)
			res.Evals += len(qs)
			res.Validated += len(qs)
			rows, order, ok := parseVariantRows(ob.Out)
			if ob.Outcome != "returned" || ob.HasErr || !ok || len(order) != len(qs) {
				res.Violate("variants:binary-"+ob.Outcome, fmt.Sprintf("real binary failed on layout %s (%s): %s %s", l.Name, f, ob.String(), ob.Detail), c)
				continue
			}
			for i, q := range qs {
				m := modelVariants(c.Feats, c.RefRow, q)
				if cause, msg := judgeVariants(m, rows[fmt.Sprintf("q%d", i)], c.AppendSNP, c.Feats); cause != "" {
					cc := c
					cc.QRows = []string{q}
					res.Violate(cause, "real binary, layout "+l.Name+" ("+f+"): "+msg, cc)
				}
			}
		}
	}
}

func init() {
	acgt := "ACGT"
	register(&Prop{
		ID:    "C04",
		Level: "model_checking",
		Rule: "bounded-exhaustive enumeration against a set-disjointness + independent genetic-code model. (a) codon level: a one-codon+stop gene on the forward and on the reverse strand, reference codon in all 64, query codon in all 15^3 IUPAC codons (thorough: all 17^3 incl. '-' and '?'), GenBank and GFF3; " +
			"(b) layout level: an 18-base genome with 12 annotation layouts (forward, reverse, join, a join whose segments are not in ascending order (origin-spanning), complement(join), join(complement,...), overlapping named, forward+reverse, named peptide inside an unnamed GFF CDS, unnamed CDS only / without ID, no features) in GenBank and/or GFF3 form x every single substitution and every pair of substitutions over ACGTRN- (5 616 queries) + every 1-2-base insertion or deletion at every site combined with every single substitution, --append-snps on/off; the indel/substitution queries of every layout also as single-record SAM alignments through `sam variants` (consecutive records with equally long insertions at different sites). " +
			"A case is one (annotation, reference row, query row, option) tuple; non-trivial = at least one certainly-different position; each generated once",
		Assumptions: []string{
			"oracle: a position must be mentioned iff its base sets are disjoint ('-','?','N' = any base); an aa record is required iff every A/C/G/T expansion of the query codon translates to the same residue != the reference residue; codons containing '-' or '?' are untranslatable (never a call)",
			"without --append-snps the SNPs inside a called codon are not printed, so completeness is judged for all other positions and soundness for all printed ones",
			"record order within a row is not judged here (C12/C13/C14)",
		},
		Bounds: func(tier string) map[string]interface{} {
			return map[string]interface{}{"codon_alphabet": map[string]string{"quick": iupac15, "thorough": alphabet17}[tier], "layout_genome": c04Genome, "layouts": len(c04Layouts()), "substitution_alphabet": c04Subs}
		},
		Plan: func(tier string) ([]string, *engine.JobResult) {
			var jobs []string
			for li, l := range c04Layouts() {
				for _, f := range l.Formats {
					for _, ap := range []int{1, 0} {
						jobs = append(jobs, fmt.Sprintf("layout:%d:%s:%d", li, f, ap))
					}
					jobs = append(jobs, fmt.Sprintf("sam:%d:%s", li, f))
				}
			}
			jobs = append(jobs, "cli")
			k := 0
			for _, a := range acgt {
				for _, b := range acgt {
					for _, c := range acgt {
						for _, rev := range []int{0, 1} {
							for fi, f := range []string{"gb", "gff"} {
								if tier == "quick" && (k+fi+rev)%2 == 1 {
									continue
								}
								jobs = append(jobs, fmt.Sprintf("codon:%c%c%c:%d:%s", a, b, c, rev, f))
							}
						}
						k++
					}
				}
			}
			return jobs, nil
		},
		Exec: func(tier, job string) *engine.JobResult {
			res := &engine.JobResult{}
			defer func() { res.Transitions = res.States }()
			switch {
			case strings.HasPrefix(job, "case:"):
				var c c04Case
				mustJSON(job[5:], &c)
				c04Check(c, res, false)
			case strings.HasPrefix(job, "codon:"):
				p := strings.Split(job, ":")
				alpha := iupac15
				if tier == "thorough" {
					alpha = alphabet17
				}
				c04CodonJob(p[1], p[2] == "1", p[3], alpha, res)
			case strings.HasPrefix(job, "layout:"):
				p := strings.Split(job, ":")
				var li int
				fmt.Sscan(p[1], &li)
				c04LayoutJob(li, p[2], p[3] == "1", tier, res)
			case strings.HasPrefix(job, "sam:"):
				p := strings.Split(job, ":")
				var li int
				fmt.Sscan(p[1], &li)
				c04SamJob(li, p[2], res)
			case job == "cli":
				c04CLI(res)
			}
			return res
		},
	})
}
