package main

import (
	"bytes"
	"encoding/json"
	"fmt"
	"os"
	"sort"
	"strconv"
	"strings"
	"time"

	"harness/engine"
)

// Prop is one property's checker.
type Prop struct {
	ID          string
	Level       string // evidence level
	Rule        string
	Assumptions []string
	Bounds      func(tier string) map[string]interface{}
	// Plan runs in the parent and returns the jobs for the tier plus whatever it evaluated itself.
	Plan func(tier string) (jobs []string, pre *engine.JobResult)
	// Exec runs in a worker. A job of the form "case:<json>" re-checks one recorded case.
	Exec func(tier, job string) *engine.JobResult
	// Post runs in the parent after all jobs (cross-job oracles); may add violations.
	Post func(tier string, total *engine.JobResult)
	// Pre runs in the parent before the jobs (cheap passes whose verdict must not depend on the jobs finishing).
	Pre func(tier string, total *engine.JobResult)
}

var props = map[string]*Prop{}

// selftestMain is set by selftest.go (build tag selftest).
var selftestMain func() int

func allScenarios() []Scenario {
	var sc []Scenario
	sc = append(sc, c12All("thorough")...)
	for _, f := range layerScens {
		sc = append(sc, f()...)
	}
	sc = append(sc, c01SchedScenarios()...)
	sc = append(sc, c02SchedScenarios()...)
	return sc
}

func register(p *Prop) { props[p.ID] = p }

func deadline(tier string) time.Duration {
	if s := os.Getenv("VERIF_DEADLINE_S"); s != "" {
		n, _ := strconv.Atoi(s)
		if n > 0 {
			return time.Duration(n) * time.Second
		}
	}
	if tier == "thorough" {
		return 100 * time.Minute
	}
	return 20 * time.Minute
}

func main() {
	if len(os.Args) < 2 {
		fmt.Println("usage: vcheck <Cxx> <quick|thorough> | worker <Cxx> <tier> | replay <file> | list")
		os.Exit(2)
	}
	switch os.Args[1] {
	case "fsize":
		engine.FsizeExec(os.Args[2:])
	case "list":
		ids := []string{}
		for id := range props {
			ids = append(ids, id)
		}
		sort.Strings(ids)
		fmt.Println(strings.Join(ids, " "))
	case "selftest":
		engine.IsolateStdio()
		if selftestMain == nil {
			fmt.Fprintln(engine.ProtoOut(), "this binary was built without the selftest tag (see tools/selftest.sh)")
			os.Exit(2)
		}
		os.Exit(selftestMain())
	case "explore":
		// debugging aid: vcheck explore <substr> <mode> [maxexecs] — explores matching C12-style scenarios in-process
		engine.IsolateStdio()
		max := 0
		if len(os.Args) > 4 {
			max, _ = strconv.Atoi(os.Args[4])
		}
		for _, sc := range allScenarios() {
			if !strings.Contains(sc.Name, os.Args[2]) {
				continue
			}
			sc := sc
			m := parseMode(os.Args[3])
			sc.Mode = os.Args[3]
			ex := engine.NewExplorer(sc.execFn(), engine.Opts{P: m.P, M: m.M, Unbounded: m.Unbounded, Delay: m.Delay, MaxExecs: max})
			t0 := time.Now()
			ex.Subtree(nil)
			fmt.Fprintf(engine.ProtoOut(), "%-32s mode=%s execs=%d states=%d trans=%d hits=%d maxpoints=%d outcomes=%d capped=%v %.1fs\n", sc.Name, os.Args[3], ex.St.Execs, ex.St.States, ex.St.Transitions, ex.St.CacheHits, ex.St.MaxPoints, len(ex.St.Outcomes), ex.St.Capped, time.Since(t0).Seconds())
			if os.Getenv("VERIF_EXPLORE_FAMILIES") != "" {
				r0, _ := sc.execFn()(nil)
				fmt.Fprintf(engine.ProtoOut(), "    continuations: %v\n    goroutines: %v\n", r0.Continuations, r0.Goroutines)
				for _, cc := range r0.Continuations {
					rr, oo := sc.execPolicy("", cc)
					fmt.Fprintf(engine.ProtoOut(), "    suspend %s -> leftover %v conts %d out %.60s\n", cc, rr.Leftover, len(rr.Continuations), oo)
				}
				c2, _, who, n := sc.suspendFamily()
				fmt.Fprintf(engine.ProtoOut(), "    suspension family: %d runs, %d outcomes\n", n, len(c2))
				for o, k := range c2 {
					fmt.Fprintf(engine.ProtoOut(), "    %6d  %.200s   suspended=%s\n", k, o, who[o])
				}
			}
			if len(ex.St.Outcomes) > 1 {
				for o, n := range ex.St.Outcomes {
					fmt.Fprintf(engine.ProtoOut(), "    %6d  %.300s   first=%v\n", n, o, ex.St.FirstTrace[o])
				}
			}
		}
		engine.CleanScratch()
	case "racepass":
		// free-running pass of the same scenario bodies in a plain -race build (complementary to the
		// controlled scheduler, whose hand-offs hide races from the detector)
		engine.IsolateStdio()
		n := 0
		id, only := "C12", ""
		if len(os.Args) > 2 {
			id = os.Args[2]
		}
		if len(os.Args) > 3 {
			only = os.Args[3]
		}
		var scs []Scenario
		if id == "C12" {
			scs = c12All("thorough")
		} else if f := layerByProp[id]; f != nil {
			scs = f()
		}
		for _, sc := range scs {
			if only != "" && sc.Name != only {
				continue
			}
			lo := 1
			if only != "" {
				lo = 2 // a cold process is for the concurrent first use
			}
			for th := lo; th <= 16; th++ {
				c := sc.Call
				c.Threads = th
				var buf bytes.Buffer
				c.Run(&buf)
				n++
			}
		}
		engine.CleanScratch()
		fmt.Fprintf(engine.ProtoOut(), "racepass runs=%d\n", n)
	case "worker":
		engine.IsolateStdio()
		p := props[os.Args[2]]
		tier := os.Args[3]
		if tier == "quick" {
			schedJobCap, schedJobTime = 400000, 4*time.Minute
		} else {
			schedJobCap, schedJobTime = 20000000, 30*time.Minute
		}
		defer engine.CleanScratch()
		engine.WorkerLoop(func(job string) *engine.JobResult { return p.Exec(tier, job) })
		engine.CleanScratch()
	case "replay":
		engine.IsolateStdio()
		b, err := os.ReadFile(os.Args[2])
		if err != nil {
			engine.EngineError("%v", err)
		}
		var art struct {
			Property string          `json:"property"`
			Cause    string          `json:"cause"`
			Case     json.RawMessage `json:"case"`
			Tier     string          `json:"tier"`
		}
		if err := json.Unmarshal(b, &art); err != nil {
			engine.EngineError("%v", err)
		}
		p := props[art.Property]
		if p == nil {
			engine.EngineError("unknown property %q", art.Property)
		}
		res := p.Exec(art.Tier, "case:"+string(art.Case))
		engine.CleanScratch()
		if len(res.Violations) == 0 {
			fmt.Fprintf(engine.ProtoOut(), "replay: case passes (property %s holds on it)\n", art.Property)
			os.Exit(0)
		}
		for _, v := range res.Violations {
			fmt.Fprintf(engine.ProtoOut(), "replay: VIOLATION property=%s cause=%s\n%s\n", art.Property, v.Cause, v.Msg)
		}
		os.Exit(1)
	default:
		id := os.Args[1]
		tier := "quick"
		if len(os.Args) > 2 {
			tier = os.Args[2]
		}
		if tier != "quick" && tier != "thorough" {
			engine.EngineError("tier must be quick or thorough")
		}
		p := props[id]
		if p == nil {
			engine.EngineError("unknown property %q", id)
		}
		engine.IsolateStdio()
		os.Exit(runCheck(p, tier))
	}
}

func runCheck(p *Prop, tier string) int {
	start := time.Now()
	dl := start.Add(deadline(tier))
	jobs, pre := p.Plan(tier)
	total := &engine.JobResult{}
	if pre != nil {
		total.Merge(pre)
	}
	if p.Pre != nil {
		p.Pre(tier, total)
	}
	res, done := engine.RunJobs([]string{p.ID, tier}, jobs, func() bool { return time.Now().After(dl) })
	total.Merge(res)
	exhaustive := done == len(jobs)
	if !exhaustive {
		total.Notes = append(total.Notes, fmt.Sprintf("internal deadline reached: %d of %d jobs completed (jobs are handed out in enumeration order)", done, len(jobs)))
	}
	if p.Post != nil {
		p.Post(tier, total) // (binding through the real binary: does not depend on every job having run)
	}
	engine.CleanScratch()
	rep := &engine.Report{Property: p.ID, Tier: tier, Level: p.Level, Rule: p.Rule, Assumptions: p.Assumptions, Exhaustive: exhaustive, Result: total, Start: start}
	if p.Bounds != nil {
		rep.Bounds = p.Bounds(tier)
	}
	rep.Extra = map[string]interface{}{"jobs": len(jobs), "jobs_completed": done, "workers": engine.NWorkers()}
	return engine.Publish(rep)
}
