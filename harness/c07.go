package main

// C07 — raw, snp and tn93 distances equal their definitions for every pair.

import (
	"fmt"
	"math"
	"strconv"
	"strings"

	"harness/engine"
)

type c07Case struct {
	Measure string   `json:"measure"`
	Query   string   `json:"query"`
	Targets []string `json:"targets"`
	WrapT   int      `json:"wraptargets,omitempty"` // target FASTA written with sequence lines of this width
}

// backbones: 12 columns containing all four bases in both rows, one transition and one transversion
const c07BackQ = "ACGTACGTACGA"
const c07BackT = "ACGTACGTGCGC" // A->G transition at column 9, A->C transversion at column 12

func c07Run(c c07Case) (Obs, map[string]string) {
	recs := []string{}
	for i, t := range c.Targets {
		recs = append(recs, fmt.Sprintf("t%d", i), wrapSeq(t, c.WrapT))
	}
	call := Call{Cmd: "closest", Query: fastaOf("q", c.Query), Target: fastaOf(recs...), Measure: c.Measure, N: len(c.Targets), Table: true, Threads: 2}
	o := call.Canon()
	if o.Outcome != "returned" || o.HasErr {
		return o, nil
	}
	lines := strings.Split(strings.TrimSuffix(o.Out, "\n"), "\n")
	if len(lines) == 0 || lines[0] != "query,target,distance" {
		o.Outcome = "unparseable"
		return o, nil
	}
	m := map[string]string{}
	for _, l := range lines[1:] {
		f := strings.Split(l, ",")
		if len(f) != 3 || f[0] != "q" {
			o.Outcome = "unparseable"
			return o, nil
		}
		m[f[1]] = f[2]
	}
	return o, m
}

func c07Check(c c07Case, res *engine.JobResult, attribute bool) {
	o, m := c07Run(c)
	res.Evals += len(c.Targets)
	if m == nil {
		if attribute && len(c.Targets) > 1 {
			for _, t := range c.Targets {
				c07Check(c07Case{Measure: c.Measure, Query: c.Query, Targets: []string{t}, WrapT: c.WrapT}, res, false)
			}
			return
		}
		res.Violate("distance:"+o.Outcome+"-on-valid-input", fmt.Sprintf("closest --table failed on valid input: %s %s", o.String(), o.Detail), c)
		return
	}
	for i, t := range c.Targets {
		want, defined := distModel(c.Measure, c.Query, t)
		gotS, present := m[fmt.Sprintf("t%d", i)]
		if !defined {
			res.Count("pairs_with_undefined_distance_not_judged", 1)
			continue
		}
		res.Nontrivial++
		single := c07Case{Measure: c.Measure, Query: c.Query, Targets: []string{t}, WrapT: c.WrapT}
		if !present {
			res.Violate("distance:row-missing", fmt.Sprintf("%s distance of %q vs %q is defined (%.9f) but the pair is missing from -n %d --table", c.Measure, c.Query, t, want, len(c.Targets)), c)
			continue
		}
		got, err := strconv.ParseFloat(gotS, 64)
		tol := 1.5e-9
		if c.Measure == "snp" {
			tol = 0
			if strings.ContainsAny(gotS, ".eE") {
				err = fmt.Errorf("snp distance not printed as an integer")
			}
		}
		if err != nil || math.IsNaN(got) || math.Abs(got-want) > tol {
			res.Violate("distance:"+c.Measure+"-value", fmt.Sprintf("%s distance of query %q vs target %q: printed %q, definition gives %.12f", c.Measure, c.Query, t, gotS, want), single)
		}
	}
}

func caseMode(s string, mode int) string {
	switch mode {
	case 1:
		return strings.ToLower(s)
	case 2:
		b := []byte(s)
		for i := range b {
			if i%2 == 1 {
				b[i] = strings.ToLower(string(b[i]))[0]
			}
		}
		return string(b)
	}
	return s
}

func init() {
	A := alphabet17
	register(&Prop{
		ID:    "C07",
		Level: "model_checking",
		Rule: "bounded-exhaustive table against the reference definitions: for each measure, every ordered pair of column pairs ((x1,y1),(x2,y2)) over the 17-symbol alphabet (83 521 sequence pairs) appended to a 12-column backbone containing all four bases, one transition and one transversion (289 targets per call, read back from `closest -n 289 --table`), with the target in upper, lower and mixed case; thorough adds a third variable column over {A,C,G,T,R,N,-} in both rows (83 521 x 49 pairs) on two backbones; plus 289 single-target calls per measure in sequence (history independence), all 289 single-column pairs and all 289^2/… two-column pairs without backbone for raw/snp. " +
			"A case is one (measure, query, target); non-trivial = the definition gives a defined distance (pairs whose raw distance is 0/0 or whose tn93 logarithms/frequencies are undefined are run but not judged); each generated once",
		Assumptions: []string{
			"tn93: Tamura & Nei 1993 eq. 7 over columns where both are A/C/G/T, base frequencies from the target's A/C/G/T counts; compared numerically with |delta| <= 1.5e-9 (9 printed decimals)",
			"raw compared with the same tolerance, snp exactly",
		},
		Bounds: func(tier string) map[string]interface{} {
			return map[string]interface{}{"alphabet": A, "backbone_query": c07BackQ, "backbone_target": c07BackT, "variable_columns": 2}
		},
		Plan: func(tier string) ([]string, *engine.JobResult) {
			var jobs []string
			for _, m := range []string{"raw", "snp", "tn93"} {
				for r := 0; r < 289; r += 17 {
					jobs = append(jobs, fmt.Sprintf("tab:%s:%d", m, r))
				}
			}
			jobs = append(jobs, "bare:raw", "bare:snp", "single:raw", "single:snp", "single:tn93", "cli")
			if tier == "thorough" {
				// three variable columns: the third over {A,C,G,T,R,N,-} in both rows, on a second backbone too
				for _, m := range []string{"raw", "snp", "tn93"} {
					for r := 0; r < 289; r += 6 {
						jobs = append(jobs, fmt.Sprintf("tab3:%s:%d", m, r))
					}
				}
			}
			return jobs, nil
		},
		Exec: func(tier, job string) *engine.JobResult {
			res := &engine.JobResult{}
			defer func() { res.Transitions = res.States }()
			if strings.HasPrefix(job, "case:") {
				var c c07Case
				mustJSON(job[5:], &c)
				c07Check(c, res, false)
				return res
			}
			var pairs []string
			for i := 0; i < 17; i++ {
				for j := 0; j < 17; j++ {
					pairs = append(pairs, string([]byte{A[i], A[j]}))
				}
			}
			p := strings.Split(job, ":")
			switch p[0] {
			case "tab":
				var r0 int
				fmt.Sscan(p[2], &r0)
				for r := r0; r < r0+17 && r < 289; r++ {
					mode := r % 3
					q := caseMode(c07BackQ+pairs[r], mode/2)
					var ts []string
					for _, y := range pairs {
						ts = append(ts, caseMode(c07BackT+y, mode))
					}
					if r%2 == 1 {
						// the same targets in reverse file order: a distance must not depend on where in the file
						// (or after which other file) a target comes
						for i, j := 0, len(ts)-1; i < j; i, j = i+1, j-1 {
							ts[i], ts[j] = ts[j], ts[i]
						}
					}
					c := c07Case{Measure: p[1], Query: q, Targets: ts}
					if r%5 == 2 {
						c.WrapT = 3 + r%4 // the same distances for a target file with wrapped sequence lines
					}
					c07Check(c, res, true)
					res.States += len(ts) + 1
					if r == 34 {
						res.Sample(c07Case{Measure: p[1], Query: q, Targets: ts[:3]})
					}
				}
			case "tab3":
				var r0 int
				fmt.Sscan(p[2], &r0)
				sub := "ACGTRN-"
				for r := r0; r < r0+6 && r < 289; r++ {
					for bi, back := range [][2]string{{c07BackQ, c07BackT}, {"AACCGGTTACGTAC", "AACCGGTTGCGTAA"}} {
						for _, x3 := range sub {
							q := back[0] + pairs[r] + string(x3)
							var ts []string
							for _, y := range pairs {
								for _, y3 := range sub {
									ts = append(ts, back[1]+y+string(y3))
								}
							}
							if (r+bi)%2 == 1 {
								for i, j := 0, len(ts)-1; i < j; i, j = i+1, j-1 {
									ts[i], ts[j] = ts[j], ts[i]
								}
							}
							c07Check(c07Case{Measure: p[1], Query: q, Targets: ts}, res, true)
							res.States += len(ts) + 1
						}
					}
				}
			case "single":
				// one target per call, a different one each time: a distance must not depend on what the
				// process computed before (history independence)
				q := c07BackQ + "AC"
				for i, y := range pairs {
					t := caseMode(c07BackT+y, i%3)
					if i%7 == 0 {
						t = strings.Repeat("A", 6) + strings.Repeat("C", 3) + "GGT" + y // other base frequencies
					}
					c07Check(c07Case{Measure: p[1], Query: q, Targets: []string{t}}, res, false)
					res.States++
				}
			case "bare":
				for _, x := range pairs {
					c07Check(c07Case{Measure: p[1], Query: x, Targets: pairs}, res, true)
					res.States += len(pairs) + 1
				}
				var singles []string
				for i := 0; i < 17; i++ {
					singles = append(singles, A[i:i+1])
				}
				for _, x := range singles {
					c07Check(c07Case{Measure: p[1], Query: x, Targets: singles}, res, true)
					res.States += 18
				}
			case "cli":
				for _, m := range []string{"raw", "snp", "tn93"} {
					for r := engine.Seed() % 23; r < 289; r += 23 {
						q := c07BackQ + pairs[r]
						recs := []string{}
						var ts []string
						for i, y := range pairs {
							ts = append(ts, c07BackT+y)
							recs = append(recs, fmt.Sprintf("t%d", i), c07BackT+y)
						}
						call := Call{Cmd: "closest", Query: fastaOf("q", q), Target: fastaOf(recs...), Measure: m, N: len(ts), Table: true, Threads: 2}
						ob, _ := call.CLI(nil, 2)
						oc := call.Canon()
						res.Evals += len(ts)
						res.Validated += len(ts)
						if ob.String() != oc.String() {
							res.Violate("distance:binary-differs", fmt.Sprintf("real binary and instrumented build disagree for measure %s query %s: %s", m, q, firstDiff(ob.Out, oc.Out)), c07Case{Measure: m, Query: q, Targets: ts})
						}
					}
				}
			}
			return res
		},
	})
}
