package main

// C06 — closest returns exactly the nearest targets under the documented total order.

import (
	"fmt"
	"math"
	"strconv"
	"strings"

	"harness/engine"
)

type c06Case struct {
	Measure string   `json:"measure"`
	Queries []string `json:"queries"`
	Targets []string `json:"targets"`
	N       int      `json:"n,omitempty"`
	HasDist bool     `json:"hasdist,omitempty"`
	MaxDist float64  `json:"maxdist,omitempty"`
	Table   bool     `json:"table,omitempty"`
	Threads int      `json:"threads,omitempty"`
	WrapT   int      `json:"wraptargets,omitempty"` // write the target FASTA with sequence lines of this width
}

const c06Back = "ACGTACGTACGT" // identical backbone in every sequence: keeps tn93 frequencies non-zero

var c06Menu = []string{"AAAA", "AAAC", "AAAG", "AAAN", "NNNN", "AACA", "CCCC", "AAAR", "NAAC", "AAAY"} // AAAY: differs from AAAA only at an ambiguity code (a listed SNP at tn93 distance 0)
var c06Queries = []string{"AAAA", "AACA"}

func wrapSeq(s string, w int) string {
	if w <= 0 {
		return s
	}
	var parts []string
	for i := 0; i < len(s); i += w {
		e := i + w
		if e > len(s) {
			e = len(s)
		}
		parts = append(parts, s[i:e])
	}
	return strings.Join(parts, "\n")
}

func (c c06Case) full(s string) string {
	if s == "NNNN" {
		return strings.Repeat("N", len(c06Back)) + s // a target with no resolved site at all
	}
	return c06Back + s
}

func (c c06Case) call() Call {
	var q, t []string
	for i, s := range c.Queries {
		q = append(q, fmt.Sprintf("q%d", i), c.full(s))
	}
	for i, s := range c.Targets {
		t = append(t, fmt.Sprintf("t%d", i), wrapSeq(c.full(s), c.WrapT))
	}
	th := c.Threads
	if th == 0 {
		th = 1
	}
	return Call{Cmd: "closest", Query: fastaOf(q...), Target: fastaOf(t...), Measure: c.Measure, N: c.N, HasDist: c.HasDist, MaxDist: c.MaxDist, Table: c.Table, Threads: th, NCPU: th}
}

// c06Expect returns, per query, the expected ordered neighbour list; tail = undefined-distance
// targets that may follow (presence not judged); skip = near tie, not judged.
func c06Expect(c c06Case, qi int) (want []rankedTarget, optionalTail []rankedTarget, skip bool) {
	var names, seqs []string
	for i, s := range c.Targets {
		names = append(names, fmt.Sprintf("t%d", i))
		seqs = append(seqs, c.full(s))
	}
	ranked, near := rankTargets(c.Measure, c.full(c.Queries[qi]), names, seqs)
	if near {
		return nil, nil, true
	}
	plain := c.N == 0 && !c.HasDist
	k := c.N
	if plain {
		k = 1
	}
	for _, r := range ranked {
		if !r.Defined {
			optionalTail = append(optionalTail, r)
			continue
		}
		if c.HasDist && r.Dist > c.MaxDist {
			continue
		}
		if k > 0 && len(want) >= k {
			continue
		}
		want = append(want, r)
	}
	return
}

func c06Cause(c c06Case, tail []rankedTarget, gotNames []string) string {
	for _, g := range gotNames {
		for _, t := range tail {
			if g == t.Name {
				return "closest:undefined-distance-target-returned"
			}
		}
	}
	if c.N == 0 && !c.HasDist {
		return "closest:single-nearest"
	}
	return "closest:catchment"
}

func c06Check(c c06Case, res *engine.JobResult) {
	call := c.call()
	o := call.Canon()
	res.Evals += len(c.Queries)
	if o.Outcome != "returned" || o.HasErr {
		res.Violate("closest:"+o.Outcome+"-on-valid-input", fmt.Sprintf("valid input not processed: %s %s", o.String(), o.Detail), c)
		return
	}
	lines := strings.Split(strings.TrimSuffix(o.Out, "\n"), "\n")
	plain := c.N == 0 && !c.HasDist
	for qi := range c.Queries {
		want, tail, skip := c06Expect(c, qi)
		if skip {
			res.Count("near_ties_not_judged", 1)
			continue
		}
		res.Nontrivial++
		qn := fmt.Sprintf("q%d", qi)
		var gotNames []string
		var gotDist []string
		var gotSNPs string
		switch {
		case plain:
			if len(lines) != len(c.Queries)+1 || lines[0] != "query,closest,distance,SNPs" {
				res.Violate("closest:rows", fmt.Sprintf("expected header + %d rows: %q", len(c.Queries), o.Out), c)
				return
			}
			f := strings.SplitN(lines[qi+1], ",", 4)
			if len(f) != 4 || f[0] != qn {
				res.Violate("closest:row-order", fmt.Sprintf("row %d is %q, expected query %s", qi, lines[qi+1], qn), c)
				return
			}
			gotNames, gotDist, gotSNPs = []string{f[1]}, []string{f[2]}, f[3]
		case c.Table:
			if lines[0] != "query,target,distance" {
				res.Violate("closest:rows", "bad table header: "+lines[0], c)
				return
			}
			seenLater := false
			for _, l := range lines[1:] {
				f := strings.Split(l, ",")
				if len(f) != 3 {
					res.Violate("closest:rows", "bad table row: "+l, c)
					return
				}
				if f[0] == qn {
					if seenLater {
						res.Violate("closest:row-order", "table rows of one query are not contiguous / not in query order", c)
						return
					}
					gotNames = append(gotNames, f[1])
					gotDist = append(gotDist, f[2])
				} else if len(gotNames) > 0 {
					seenLater = true
				}
			}
		default:
			if len(lines) != len(c.Queries)+1 || lines[0] != "query,closest" {
				res.Violate("closest:rows", fmt.Sprintf("expected header + %d rows: %q", len(c.Queries), o.Out), c)
				return
			}
			f := strings.SplitN(lines[qi+1], ",", 2)
			if len(f) != 2 || f[0] != qn {
				res.Violate("closest:row-order", fmt.Sprintf("row %d is %q, expected query %s", qi, lines[qi+1], qn), c)
				return
			}
			if f[1] != "" {
				gotNames = strings.Split(f[1], ";")
			}
		}
		// compare the defined prefix; an optional tail of undefined-distance targets is tolerated only
		// when fewer than K defined ones exist
		okNames := len(gotNames) >= len(want)
		for i := 0; okNames && i < len(want); i++ {
			if gotNames[i] != want[i].Name {
				okNames = false
			}
		}
		if okNames && len(gotNames) > len(want) {
			extra := gotNames[len(want):]
			full := c.N > 0 && len(want) >= c.N || plain && len(want) >= 1
			if full || c.HasDist {
				okNames = false
			}
			for _, e := range extra {
				found := false
				for _, t := range tail {
					if t.Name == e {
						found = true
					}
				}
				if !found {
					okNames = false
				}
			}
		}
		if plain && len(want) == 0 {
			okNames = true // no target has a defined distance: whichever is named, the statement is silent
		}
		if !okNames {
			single := c
			single.Queries = []string{c.Queries[qi]}
			var wn []string
			for _, w := range want {
				wn = append(wn, fmt.Sprintf("%s(d=%.6g,c=%d)", w.Name, w.Dist, w.Compl))
			}
			res.Violate(c06Cause(c, tail, gotNames), fmt.Sprintf("measure %s, query %s, targets %v, n=%d d=%v(%v): returned %v, expected %v", c.Measure, c.Queries[qi], c.Targets, c.N, c.MaxDist, c.HasDist, gotNames, wn), single)
			continue
		}
		// distances and SNP lists of the returned pairs
		for i := 0; i < len(gotDist) && i < len(want); i++ {
			g, err := strconv.ParseFloat(gotDist[i], 64)
			if err != nil || math.Abs(g-want[i].Dist) > 1.5e-9 {
				res.Violate("closest:reported-distance", fmt.Sprintf("measure %s query %s target %s: distance printed %q, definition %.9f", c.Measure, c.Queries[qi], c.Targets[want[i].Idx], gotDist[i], want[i].Dist), c)
			}
		}
		if plain && len(want) == 1 {
			q, t := c.full(c.Queries[qi]), c.full(c.Targets[want[0].Idx])
			var sn []string
			for k := 0; k < len(q); k++ {
				m1, _ := maskOf(q[k], false)
				m2, _ := maskOf(t[k], false)
				if m1&m2 == 0 {
					sn = append(sn, fmt.Sprintf("%d%c%c", k+1, upper(q[k]), upper(t[k])))
				}
			}
			if gotSNPs != strings.Join(sn, ";") {
				res.Violate("closest:snp-list", fmt.Sprintf("query %s closest %s: SNPs column %q, expected %q", c.Queries[qi], c.Targets[want[0].Idx], gotSNPs, strings.Join(sn, ";")), c)
			}
		}
	}
}

// c06Modes: the option settings explored for every target file.
func c06Modes(measure string) []c06Case {
	var ms []c06Case
	ms = append(ms, c06Case{}) // plain
	for n := 1; n <= 3; n++ {
		ms = append(ms, c06Case{N: n}, c06Case{N: n, Table: true})
	}
	var ds []float64
	switch measure {
	case "snp":
		ds = []float64{0, 1, 2}
	default:
		ds = []float64{0, 1.0 / 16, 1.0 / 8, 1}
	}
	for _, d := range ds {
		ms = append(ms, c06Case{HasDist: true, MaxDist: d}, c06Case{HasDist: true, MaxDist: d, Table: true}, c06Case{HasDist: true, MaxDist: d, N: 2})
	}
	return ms
}

func c06Files(maxLen int, f func(ts []string)) (nodes int) {
	var rec func(cur []string)
	rec = func(cur []string) {
		nodes++
		if len(cur) > 0 {
			f(cur)
		}
		if len(cur) == maxLen {
			return
		}
		for _, m := range c06Menu {
			rec(append(append([]string{}, cur...), m))
		}
	}
	rec(nil)
	return
}

func init() {
	register(&Prop{
		ID:    "C06",
		Level: "model_checking",
		Rule: "bounded-exhaustive enumeration against a sort-based reference model: every target file of 1..4 (thorough 5) records over a menu of 9 sequences (ties on distance, ties on distance and completeness, completeness-only differences, an all-N target, duplicates, a far target), two queries in both orders, x measure {raw,snp,tn93} x {plain, -n 1..3 (+--table), -d at 3-4 thresholds (+--table, +-n 2)} x threads {1,2}, targets written unwrapped or line-wrapped; plus files of 13..30 tied targets (sorting beyond insertion-sort size). " +
			"Expected = first K within D of the targets ordered by (distance asc, completeness desc, file position asc), undefined distances last; distances and the SNP list of the returned pair are checked too. A case is one (query, target file, option set); non-trivial = judged (no near tie); each generated once",
		Assumptions: []string{
			"a target with undefined distance must never precede or replace one with a defined distance; it may only appear as a tail when fewer than K defined ones exist (presence or absence there is not judged); when no target has a defined distance plain closest is not judged",
			"distance ties are exact float ties between targets with identical column statistics; pairs of different defined distances closer than 1e-10 are counted and not judged (none expected)",
		},
		Bounds: func(tier string) map[string]interface{} {
			return map[string]interface{}{"menu": c06Menu, "queries": c06Queries, "backbone": c06Back, "max_targets_per_file": map[string]int{"quick": 4, "thorough": 5}[tier]}
		},
		Plan: func(tier string) ([]string, *engine.JobResult) {
			var jobs []string
			for _, m := range []string{"raw", "snp", "tn93"} {
				for s := 0; s < 24; s++ {
					jobs = append(jobs, fmt.Sprintf("files:%s:%d/24", m, s))
				}
				jobs = append(jobs, "big:"+m)
			}
			jobs = append(jobs, "cli")
			return jobs, nil
		},
		Exec: func(tier, job string) *engine.JobResult {
			res := &engine.JobResult{}
			defer func() { res.Transitions = res.States }()
			if strings.HasPrefix(job, "case:") {
				var c c06Case
				mustJSON(job[5:], &c)
				c06Check(c, res)
				return res
			}
			maxLen := 4
			if tier == "thorough" {
				maxLen = 5
			}
			p := strings.Split(job, ":")
			switch p[0] {
			case "files":
				var s, n int
				fmt.Sscanf(p[2], "%d/%d", &s, &n)
				idx := 0
				nodes := c06Files(maxLen, func(ts []string) {
					idx++
					if idx%n != s {
						return
					}
					for mi, mode := range c06Modes(p[1]) {
						c := mode
						c.Measure, c.Targets = p[1], ts
						c.Queries = c06Queries
						if (idx+mi)%2 == 1 {
							c.Queries = []string{c06Queries[1], c06Queries[0]}
						}
						c.Threads = 1 + (idx+mi)%2
						if (idx+mi)%3 == 0 {
							c.WrapT = 5
						}
						c06Check(c, res)
						res.States++
						if idx == 300 && mi == 3 {
							res.Sample(c)
						}
					}
				})
				if s == 0 {
					res.States += nodes
				}
			case "big":
				// many tied candidates: order must be file order (stable beyond 12 elements)
				for _, n := range []int{13, 20, 30} {
					var ts []string
					for i := 0; i < n; i++ {
						ts = append(ts, []string{"AAAC", "AAAA", "AAAG", "AAAN"}[i%4])
					}
					for _, mode := range []c06Case{{N: n}, {N: n - 3}, {HasDist: true, MaxDist: 1}, {N: n, Table: true}, {}} {
						c := mode
						c.Measure, c.Targets, c.Queries = p[1], ts, c06Queries
						c06Check(c, res)
						res.States++
					}
				}
			case "cli":
				idx := 0
				c06Files(3, func(ts []string) {
					idx++
					if idx%5 != engine.Seed()%5 {
						return
					}
					m := []string{"raw", "snp", "tn93"}[idx%3]
					modes := c06Modes(m)
					c := modes[idx%len(modes)]
					c.Measure, c.Targets, c.Queries, c.Threads = m, ts, c06Queries, 1+idx%2
					call := c.call()
					ob, _ := call.CLI(nil, c.Threads)
					oc := call.Canon()
					res.Evals++
					res.Validated++
					if ob.String() != oc.String() {
						res.Violate("closest:binary-differs", fmt.Sprintf("real binary and instrumented build disagree: %s vs %s", ob.String(), oc.String()), c)
					}
					// -d equal to the exact distance of a target, passed through the flag parser as text
					if m != "snp" {
						for ti, tseq := range ts {
							d, defined := distModel(m, c.full(c06Queries[0]), c.full(tseq))
							if !defined || d == 0 || ti > 3 {
								continue
							}
							dc := c
							dc.N, dc.HasDist, dc.MaxDist, dc.Table = 0, true, d, true
							dcall := dc.call()
							od, _ := dcall.CLI(nil, c.Threads)
							oi := dcall.Canon()
							res.Evals++
							res.Validated++
							if od.String() != oi.String() {
								res.Violate("closest:binary-differs", fmt.Sprintf("-d %v (the exact %s distance of a target): real binary %s; in-process %s", d, m, od.String(), oi.String()), dc)
							}
						}
					}
					// --measure is documented and parsed case-insensitively
					if idx%4 == 0 {
						up := call
						up.Measure = map[string]string{"raw": "Raw", "snp": "SNP", "tn93": "TN93"}[m]
						ou, _ := up.CLI(nil, c.Threads)
						res.Evals++
						res.Validated++
						if ou.String() != ob.String() {
							res.Violate("closest:measure-spelling", fmt.Sprintf("--measure %s gives %s; --measure %s gives %s", up.Measure, ou.String(), m, ob.String()), c)
						}
					}
				})
			}
			return res
		},
	})
}
