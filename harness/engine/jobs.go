package engine

import (
	"time"
	"bufio"
	"bytes"
	"encoding/json"
	"fmt"
	"io"
	"os"
	"os/exec"
	"runtime"
	"strings"
	"sync"
	"syscall"
)

// Violation is one counterexample found by a worker.
type Violation struct {
	Cause  string          `json:"cause"`  // classifier used to match known findings
	Msg    string          `json:"msg"`    // human-readable: expected vs observed
	Case   json.RawMessage `json:"case"`   // replayable case (property-specific)
	Job    string          `json:"job,omitempty"`
}

// JobResult is what a worker reports for one job.
type JobResult struct {
	Evals       int               `json:"evals"`
	Nontrivial  int               `json:"nontrivial"`
	States      int               `json:"states"`
	Transitions int               `json:"transitions"`
	Validated   int               `json:"validated"` // cases replayed against the uninstrumented CLI binary
	Counters    map[string]int    `json:"counters,omitempty"`
	Outcomes    map[string]int    `json:"outcomes,omitempty"`
	Samples     []json.RawMessage `json:"samples,omitempty"`
	Violations  []Violation       `json:"violations,omitempty"`
	Capped      bool              `json:"capped,omitempty"`
	Notes       []string          `json:"notes,omitempty"`
}

func (r *JobResult) Count(k string, n int) {
	if r.Counters == nil {
		r.Counters = map[string]int{}
	}
	r.Counters[k] += n
}

func (r *JobResult) Sample(v interface{}) {
	if len(r.Samples) < 3 {
		b, _ := json.Marshal(v)
		r.Samples = append(r.Samples, b)
	}
}

func (r *JobResult) Violate(cause, msg string, c interface{}) {
	b, _ := json.Marshal(c)
	// keep the first few per cause
	n := 0
	for _, v := range r.Violations {
		if v.Cause == cause {
			n++
		}
	}
	r.Count("violations_total", 1)
	if n < 5 {
		r.Violations = append(r.Violations, Violation{Cause: cause, Msg: msg, Case: b})
	}
}

func (r *JobResult) Merge(o *JobResult) {
	r.Evals += o.Evals
	r.Nontrivial += o.Nontrivial
	r.States += o.States
	r.Transitions += o.Transitions
	r.Validated += o.Validated
	r.Capped = r.Capped || o.Capped
	for k, v := range o.Counters {
		r.Count(k, v)
	}
	if o.Outcomes != nil && r.Outcomes == nil {
		r.Outcomes = map[string]int{}
	}
	for k, v := range o.Outcomes {
		r.Outcomes[k] += v
	}
	for _, s := range o.Samples {
		if len(r.Samples) < 6 {
			r.Samples = append(r.Samples, s)
		}
	}
	for _, v := range o.Violations {
		n := 0
		for _, w := range r.Violations {
			if w.Cause == v.Cause {
				n++
			}
		}
		if n < 5 {
			r.Violations = append(r.Violations, v)
		}
	}
	for _, n := range o.Notes {
		dup := false
		for _, m := range r.Notes {
			if m == n {
				dup = true
			}
		}
		if !dup && len(r.Notes) < 20 {
			r.Notes = append(r.Notes, n)
		}
	}
}

var protoOut io.Writer

// ProtoOut is the stream protocol/violation lines go to (the process's original stdout).
func ProtoOut() io.Writer {
	if protoOut == nil {
		return os.Stdout
	}
	return protoOut
}

// IsolateStdio keeps the original stdout for the harness protocol and points os.Stdout/os.Stderr
// (which gofasta writes warnings and, for toPairAlign, data to) at /dev/null.
func IsolateStdio() {
	fd, err := syscall.Dup(1)
	if err != nil {
		panic(err)
	}
	protoOut = os.NewFile(uintptr(fd), "proto")
	dn, _ := os.OpenFile("/dev/null", os.O_WRONLY, 0)
	os.Stdout = dn
	if os.Getenv("VERIF_KEEP_STDERR") == "" {
		os.Stderr = dn
	}
}

// WorkerLoop reads jobs (one JSON string per line) from stdin, runs exec on each and writes one
// JobResult line per job.
func WorkerLoop(exec func(job string) *JobResult) {
	in := bufio.NewReaderSize(os.Stdin, 1<<20)
	out := bufio.NewWriter(ProtoOut())
	for {
		line, err := in.ReadString('\n')
		if len(line) > 0 {
			var job string
			if e := json.Unmarshal([]byte(line), &job); e != nil {
				EngineError("bad job line: %v", e)
			}
			res := exec(job)
			for i := range res.Violations {
				if res.Violations[i].Job == "" {
					res.Violations[i].Job = job
				}
			}
			b, _ := json.Marshal(res)
			out.Write(b)
			out.WriteByte('\n')
			out.Flush()
		}
		if err != nil {
			return
		}
	}
}

// NWorkers is the number of worker processes.
func NWorkers() int {
	n := runtime.NumCPU()
	if n > 16 {
		n = 16
	}
	if n < 1 {
		n = 1
	}
	return n
}

// RunJobs distributes jobs over worker processes (`self worker <args...>`) and merges the results.
// stop() is polled between jobs; when it returns true no further jobs are handed out.
func RunJobs(workerArgs []string, jobs []string, stop func() bool) (*JobResult, int) {
	total := &JobResult{}
	var mu sync.Mutex
	next := 0
	done := 0
	self, _ := os.Executable()
	nw := NWorkers()
	if nw > len(jobs) {
		nw = len(jobs)
	}
	var wg sync.WaitGroup
	for w := 0; w < nw; w++ {
		wg.Add(1)
		go func(w int) {
			defer wg.Done()
			cmd := exec.Command(self, append([]string{"worker"}, workerArgs...)...)
			cmd.Env = append(os.Environ(), "GOMAXPROCS=1")
			stdin, _ := cmd.StdinPipe()
			stdout, _ := cmd.StdoutPipe()
			var errb bytes.Buffer
			cmd.Stderr = &errb
			if err := cmd.Start(); err != nil {
				EngineError("cannot start worker: %v", err)
			}
			rd := bufio.NewReaderSize(stdout, 1<<20)
			for {
				mu.Lock()
				if next >= len(jobs) || (stop != nil && stop()) {
					mu.Unlock()
					break
				}
				job := jobs[next]
				next++
				mu.Unlock()
				b, _ := json.Marshal(job)
				t0 := time.Now()
				stdin.Write(append(b, '\n'))
				line, err := rd.ReadString('\n')
				if tl := os.Getenv("VERIF_JOBLOG"); tl != "" {
					if f, e := os.OpenFile(tl, os.O_APPEND|os.O_CREATE|os.O_WRONLY, 0644); e == nil {
						fmt.Fprintf(f, "%8.1fs %.200s\n", time.Since(t0).Seconds(), job)
						f.Close()
					}
				}
				if err != nil || strings.HasPrefix(line, "ENGINE-ERROR") {
					rest, _ := io.ReadAll(rd)
					cmd.Wait()
					se := errb.String()
					if len(se) > 3000 {
						se = se[:1500] + "\n...\n" + se[len(se)-1500:]
					}
					if strings.Contains(se, "fatal error:") && !strings.Contains(se, "out of memory") && !strings.Contains(se, "cannot allocate") {
						mu.Lock()
						cb, _ := json.Marshal(map[string]string{"job": job, "stderr": se})
						total.Violations = append(total.Violations, Violation{Cause: "fatal-crash", Msg: "worker process died with a Go runtime fatal error while running this job", Case: cb, Job: job})
						total.Count("violations_total", 1)
						done++
						mu.Unlock()
						return
					}
					EngineError("worker failed on job %q: %v %s%s\nstderr: %s", job, err, line, string(rest), se)
				}
				var res JobResult
				if e := json.Unmarshal([]byte(line), &res); e != nil {
					EngineError("bad worker result: %v: %.200s", e, line)
				}
				mu.Lock()
				total.Merge(&res)
				done++
				mu.Unlock()
			}
			stdin.Close()
			cmd.Wait()
		}(w)
	}
	wg.Wait()
	return total, done
}

// Jobf formats a job string.
func Jobf(format string, a ...interface{}) string { return fmt.Sprintf(format, a...) }
