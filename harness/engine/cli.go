package engine

import (
	"bytes"
	"context"
	"fmt"
	"os"
	"os/exec"
	"path/filepath"
	"syscall"
	"time"
)

// Gofasta is the path of the real (uninstrumented) CLI binary built from /repo's working tree.
func Gofasta() string {
	if p := os.Getenv("VERIF_GOFASTA"); p != "" {
		return p
	}
	return filepath.Join(VerifDir(), "build", "gofasta")
}

var scratch string

// Scratch returns a per-process scratch directory under /dev/shm (removed by CleanScratch).
func Scratch() string {
	if scratch == "" {
		base := "/dev/shm"
		if _, err := os.Stat(base); err != nil {
			base = os.TempDir()
		}
		d, err := os.MkdirTemp(base, "vcheck_")
		if err != nil {
			EngineError("scratch: %v", err)
		}
		scratch = d
	}
	return scratch
}

func CleanScratch() {
	if scratch != "" {
		os.RemoveAll(scratch)
		scratch = ""
	}
}

// WriteScratch writes a file into the scratch directory and returns its path.
func WriteScratch(name, content string) string {
	p := filepath.Join(Scratch(), name)
	if err := os.WriteFile(p, []byte(content), 0644); err != nil {
		EngineError("scratch write: %v", err)
	}
	return p
}

// CLIResult is the observable behaviour of one run of the real binary.
type CLIResult struct {
	Stdout   string
	Stderr   string
	Exit     int
	TimedOut bool
}

// CLI runs the real gofasta binary. limit is a generous wall-clock limit used only to keep the
// harness alive when the binary hangs; a time-out is reported, never silently interpreted.
func CLI(stdin string, limit time.Duration, env []string, args ...string) CLIResult {
	ctx, cancel := context.WithTimeout(context.Background(), limit)
	defer cancel()
	cmd := exec.CommandContext(ctx, Gofasta(), args...)
	cmd.Stdin = bytes.NewReader([]byte(stdin))
	var so, se bytes.Buffer
	cmd.Stdout = &so
	cmd.Stderr = &se
	cmd.Env = append(os.Environ(), env...)
	err := cmd.Run()
	r := CLIResult{Stdout: so.String(), Stderr: se.String()}
	if ctx.Err() == context.DeadlineExceeded {
		r.TimedOut = true
		r.Exit = -1
		return r
	}
	if err != nil {
		if ee, ok := err.(*exec.ExitError); ok {
			if ws, ok := ee.Sys().(syscall.WaitStatus); ok && ws.Signaled() {
				r.Exit = 128 + int(ws.Signal())
			} else {
				r.Exit = ee.ExitCode()
			}
		} else {
			EngineError("cannot run %s: %v", Gofasta(), err)
		}
	}
	return r
}

// CLIFsize runs the binary with RLIMIT_FSIZE = n bytes (through `sh -c ulimit`), SIGXFSZ ignored
// by the Go runtime so the write fails with EFBIG.
func CLIFsize(n int, stdin string, limit time.Duration, args ...string) CLIResult {
	ctx, cancel := context.WithTimeout(context.Background(), limit)
	defer cancel()
	// ulimit -f counts 512-byte blocks in POSIX sh; use prlimit-style via bash's byte-less unit is not available, so
	// we use a tiny launcher: the harness binary itself re-executed with `fsize`.
	self, _ := os.Executable()
	cmd := exec.CommandContext(ctx, self, append([]string{"fsize", fmt.Sprint(n), Gofasta()}, args...)...)
	cmd.Stdin = bytes.NewReader([]byte(stdin))
	var so, se bytes.Buffer
	cmd.Stdout = &so
	cmd.Stderr = &se
	err := cmd.Run()
	r := CLIResult{Stdout: so.String(), Stderr: se.String()}
	if ctx.Err() == context.DeadlineExceeded {
		r.TimedOut = true
		r.Exit = -1
		return r
	}
	if err != nil {
		if ee, ok := err.(*exec.ExitError); ok {
			if ws, ok := ee.Sys().(syscall.WaitStatus); ok && ws.Signaled() {
				r.Exit = 128 + int(ws.Signal())
			} else {
				r.Exit = ee.ExitCode()
			}
		} else {
			EngineError("cannot run fsize launcher: %v", err)
		}
	}
	return r
}

// CLIFsizeToFile is CLIFsize with the binary's stdout redirected to a regular file (so that the size
// limit applies to what it prints); the file content is returned in Stdout.
func CLIFsizeToFile(n int, stdin string, limit time.Duration, stdoutPath string, args ...string) CLIResult {
	os.Setenv("VERIF_FSIZE_STDOUT", stdoutPath)
	defer os.Unsetenv("VERIF_FSIZE_STDOUT")
	r := CLIFsize(n, stdin, limit, args...)
	b, _ := os.ReadFile(stdoutPath)
	r.Stdout = string(b)
	return r
}

// FsizeExec is the launcher behind CLIFsize: set RLIMIT_FSIZE and exec the target.
func FsizeExec(args []string) {
	var n uint64
	fmt.Sscan(args[0], &n)
	if p := os.Getenv("VERIF_FSIZE_STDOUT"); p != "" {
		f, err := os.OpenFile(p, os.O_CREATE|os.O_WRONLY|os.O_TRUNC, 0644)
		if err != nil {
			fmt.Fprintln(os.Stderr, "open stdout file:", err)
			os.Exit(96)
		}
		if err := syscall.Dup2(int(f.Fd()), 1); err != nil {
			fmt.Fprintln(os.Stderr, "dup2:", err)
			os.Exit(96)
		}
	}
	lim := syscall.Rlimit{Cur: n, Max: n}
	if err := syscall.Setrlimit(syscall.RLIMIT_FSIZE, &lim); err != nil {
		fmt.Fprintln(os.Stderr, "setrlimit:", err)
		os.Exit(97)
	}
	err := syscall.Exec(args[1], args[1:], os.Environ())
	fmt.Fprintln(os.Stderr, "exec:", err)
	os.Exit(98)
}
