// Package engine: stateless model checker (DFS by replay over the controlled scheduler in zzvs),
// job server, evidence writer.
package engine

import (
	"time"
	"fmt"
	"os"
	"reflect"

	"github.com/virus-evolution/gofasta/pkg/zzvs"
)

// EngineError reports that the machinery (not the code under test) failed, and exits 2.
func EngineError(format string, a ...interface{}) {
	fmt.Fprintf(ProtoOut(), "ENGINE-ERROR "+format+"\n", a...)
	os.Exit(2)
}

// Ctl runs body once under the controlled scheduler on the canonical schedule (choice 0 at every
// point: run-to-block, lowest goroutine id, sorted map order).
func Ctl(ncpu int, body func()) *zzvs.Result {
	r := zzvs.Run(nil, ncpu, body)
	if r.Outcome == "engine-timeout" {
		EngineError("controlled run did not reach a scheduling point within the watchdog (endless loop in code under test or engine bug)")
	}
	return r
}

// StarveFn runs one execution in which goroutine `starve` is only scheduled when nothing else can run.
type StarveFn func(starve string) (*zzvs.Result, string)

// ExecFn runs one execution following prefix and returns the scheduler's result and the
// observation (outcome, error, output bytes ... as one string) the oracle compares.
type ExecFn func(prefix []int) (*zzvs.Result, string)

// Opts bounds an exploration.
type Opts struct {
	P         int  // preemption bound (ignored if Unbounded)
	M         int  // map-order deviation bound (ignored if Unbounded)
	Delay     bool // P bounds every non-default scheduling choice (delay bounding), not only preemptions
	Unbounded bool // explore everything, pruned by happens-before state caching
	MaxExecs  int  // safety cap (0 = none); hitting it clears Exhaustive
	Until     time.Time // safety cap on wall time (zero = none); passing it clears Exhaustive
}

// Stats is what an exploration covered.
type Stats struct {
	Execs       int
	Steps       int
	PointsSeen  int
	MaxPoints   int
	States      int // distinct happens-before state keys reached
	Transitions int // scheduling/data choices executed beyond replayed prefixes
	CacheHits   int
	Outcomes    map[string]int
	FirstTrace  map[string][]int
	Capped      bool
}

func NewStats() *Stats {
	return &Stats{Outcomes: map[string]int{}, FirstTrace: map[string][]int{}}
}

// Explorer carries the happens-before cache across the subtrees one worker explores.
type Explorer struct {
	Fn   ExecFn
	Opt  Opts
	St   *Stats
	seen map[uint64]struct{} // pruning keys
	hb   map[uint64]struct{} // distinct happens-before states (counting only)
}

func NewExplorer(fn ExecFn, opt Opts) *Explorer {
	return &Explorer{Fn: fn, Opt: opt, St: NewStats(), seen: map[uint64]struct{}{}, hb: map[uint64]struct{}{}}
}

func (e *Explorer) run(prefix []int) (*zzvs.Result, string) {
	r, obs := e.Fn(prefix)
	if r.Outcome == "engine-timeout" {
		EngineError("watchdog expired at prefix %v", prefix)
	}
	if len(r.Trace) < len(prefix) {
		EngineError("replay divergence: execution ended after %d points, prefix has %d (%v)", len(r.Trace), len(prefix), prefix)
	}
	for i := range prefix {
		if r.Trace[i] != prefix[i] {
			EngineError("replay divergence at %d", i)
		}
	}
	return r, obs
}

// Children runs prefix and returns the prefixes of its child subtrees within the bounds, after
// accounting the execution itself. With the cache on, a subtree whose root state was seen is dropped.
func (e *Explorer) Children(prefix []int) [][]int {
	st := e.St
	if (e.Opt.MaxExecs > 0 && st.Execs >= e.Opt.MaxExecs) || (!e.Opt.Until.IsZero() && st.Execs%64 == 0 && time.Now().After(e.Opt.Until)) {
		st.Capped = true
		return nil
	}
	r, obs := e.run(prefix)
	st.Execs++
	st.Steps += r.Steps
	if len(r.Points) > st.MaxPoints {
		st.MaxPoints = len(r.Points)
	}
	st.Outcomes[obs]++
	if _, ok := st.FirstTrace[obs]; !ok {
		st.FirstTrace[obs] = append([]int(nil), r.Trace...)
	}
	// new part of this execution: points >= start
	start := len(prefix) - 1
	if start < 0 {
		start = 0
	}
	// budgets used after each point
	usedPAt := make([]int, len(r.Points))
	usedMAt := make([]int, len(r.Points))
	{
		up, um := 0, 0
		for i, p := range r.Points {
			if p.Kind == "map" {
				if r.Trace[i] != 0 {
					um++
				}
			} else if e.Opt.Delay {
				if r.Trace[i] != 0 {
					up++
				}
			} else {
				up += p.Costs[r.Trace[i]]
			}
			usedPAt[i], usedMAt[i] = up, um
		}
	}
	limit := len(r.Points) // branch only at points < limit
	for j := start; j < len(r.Points); j++ {
		st.Transitions++
		k := r.Points[j].Key
		if _, dup := e.hb[k]; !dup {
			e.hb[k] = struct{}{}
			st.States++
		}
		// pruning key: the happens-before state plus everything else that shapes the subtree below it
		// (who ran last, and in bounded mode the deviation budgets already spent)
		pk := k
		if !e.Opt.Unbounded {
			pk = k*1099511628211 ^ r.Points[j].Last ^ uint64(usedPAt[j])<<56 ^ uint64(usedMAt[j])<<48
		}
		if _, dup := e.seen[pk]; dup {
			st.CacheHits++
			limit = j + 1
			break
		}
		e.seen[pk] = struct{}{}
	}
	var kids [][]int
	usedP, usedM := 0, 0
	for i := 0; i < len(r.Points) && i < limit; i++ {
		p := r.Points[i]
		if i >= len(prefix) {
			st.PointsSeen++
			for alt := 1; alt < p.N; alt++ {
				if !e.Opt.Unbounded {
					if p.Kind == "map" {
						if usedM+1 > e.Opt.M {
							continue
						}
					} else if e.Opt.Delay {
						if usedP+1 > e.Opt.P {
							continue
						}
					} else if usedP+p.Costs[alt] > e.Opt.P {
						continue
					}
				}
				np := make([]int, i+1)
				copy(np, r.Trace[:i])
				np[i] = alt
				kids = append(kids, np)
			}
		}
		if p.Kind == "map" {
			if r.Trace[i] != 0 {
				usedM++
			}
		} else if e.Opt.Delay {
			if r.Trace[i] != 0 {
				usedP++
			}
		} else {
			usedP += p.Costs[r.Trace[i]]
		}
	}
	return kids
}

// Subtree explores everything below (and including) prefix.
func (e *Explorer) Subtree(prefix []int) {
	stack := [][]int{prefix}
	for len(stack) > 0 {
		p := stack[len(stack)-1]
		stack = stack[:len(stack)-1]
		kids := e.Children(p)
		// push in reverse so the leftmost child is explored first (DFS order)
		for i := len(kids) - 1; i >= 0; i-- {
			stack = append(stack, kids[i])
		}
	}
}

// DeterminismGuard replays prefix twice and requires identical traces, points and observations.
func DeterminismGuard(fn ExecFn, prefix []int) {
	r1, o1 := fn(prefix)
	r2, o2 := fn(prefix)
	if o1 != o2 || !reflect.DeepEqual(r1.Trace, r2.Trace) || len(r1.Points) != len(r2.Points) {
		EngineError("nondeterministic replay of prefix %v: %q vs %q", prefix, o1, o2)
	}
	for i := range r1.Points {
		if r1.Points[i].N != r2.Points[i].N || r1.Points[i].Key != r2.Points[i].Key {
			EngineError("nondeterministic replay of prefix %v at point %d", prefix, i)
		}
	}
}

// Merge adds o into s.
func (s *Stats) Merge(o *Stats) {
	s.Execs += o.Execs
	s.Steps += o.Steps
	s.PointsSeen += o.PointsSeen
	if o.MaxPoints > s.MaxPoints {
		s.MaxPoints = o.MaxPoints
	}
	s.States += o.States
	s.Transitions += o.Transitions
	s.CacheHits += o.CacheHits
	s.Capped = s.Capped || o.Capped
	for k, v := range o.Outcomes {
		s.Outcomes[k] += v
		if _, ok := s.FirstTrace[k]; !ok {
			s.FirstTrace[k] = o.FirstTrace[k]
		}
	}
}
