package engine

import (
	"encoding/json"
	"fmt"
	"os"
	"path/filepath"
	"sort"
	"strconv"
	"time"
)

// VerifDir is /verif (or wherever the harness was started: run_check.sh sets VERIF_DIR).
func VerifDir() string {
	if d := os.Getenv("VERIF_DIR"); d != "" {
		return d
	}
	return "/verif"
}

// OutDir is where evidence/ and replays/ are written: /verif, unless VERIF_OUT redirects them (the tools
// that run checks against deliberately broken scratch trees do, so that the committed evidence is only
// ever written by runs against /repo itself).
func OutDir() string {
	if d := os.Getenv("VERIF_OUT"); d != "" {
		return d
	}
	return VerifDir()
}

func Seed() int {
	n, _ := strconv.Atoi(os.Getenv("VERIF_SEED"))
	return n
}

// Finding is one entry of known_findings.json.
type Finding struct {
	Property string `json:"property"`
	Status   string `json:"status"` // "open" or "fixed"
	Cause    string `json:"cause"`
	What     string `json:"what"`
	Commit   string `json:"commit,omitempty"`
}

func LoadFindings() []Finding {
	b, err := os.ReadFile(filepath.Join(VerifDir(), "known_findings.json"))
	if err != nil {
		return nil
	}
	var fs []Finding
	if err := json.Unmarshal(b, &fs); err != nil {
		EngineError("known_findings.json: %v", err)
	}
	return fs
}

// Report is everything a check run needs to publish.
type Report struct {
	Property    string
	Tier        string
	Level       string // evidence level
	Rule        string
	Bounds      map[string]interface{}
	Assumptions []string
	Exhaustive  bool
	Result      *JobResult
	Extra       map[string]interface{}
	Start       time.Time
}

// Publish writes evidence/<id>.json, replay artefacts and the VIOLATION / KNOWN-FINDING lines, and
// returns the process exit code.
func Publish(rep *Report) int {
	res := rep.Result
	known := map[string]Finding{}
	for _, f := range LoadFindings() {
		if f.Property == rep.Property && f.Status == "open" {
			known[f.Cause] = f
		}
	}
	out := ProtoOut()
	newViol := 0
	printedKnown := map[string]bool{}
	repDir := filepath.Join(OutDir(), "replays", rep.Property)
	if old, _ := filepath.Glob(filepath.Join(repDir, rep.Tier+"_*.json")); len(old) > 0 {
		for _, f := range old {
			os.Remove(f) // artefacts of earlier runs of this tier
		}
	}
	sort.SliceStable(res.Violations, func(i, j int) bool { return res.Violations[i].Cause < res.Violations[j].Cause })
	var knownHit []string
	seq := 0
	for _, v := range res.Violations {
		if f, ok := known[v.Cause]; ok {
			if !printedKnown[v.Cause] {
				printedKnown[v.Cause] = true
				fmt.Fprintf(out, "KNOWN-FINDING: property=%s %s [cause=%s]\n", rep.Property, f.What, v.Cause)
				knownHit = append(knownHit, v.Cause)
			}
			continue
		}
		newViol++
		os.MkdirAll(repDir, 0755)
		seq++
		path := filepath.Join(repDir, fmt.Sprintf("%s_%s_%d.json", rep.Tier, sanitize(v.Cause), seq))
		art := map[string]interface{}{"property": rep.Property, "cause": v.Cause, "msg": v.Msg, "case": v.Case, "job": v.Job, "tier": rep.Tier}
		b, _ := json.MarshalIndent(art, "", " ")
		os.WriteFile(path, b, 0644)
		fmt.Fprintf(out, "VIOLATION property=%s replay=%s\n", rep.Property, path)
		fmt.Fprintf(out, "  cause=%s %s\n", v.Cause, oneLine(v.Msg, 600))
	}
	cov := map[string]interface{}{
		"evaluations":                   res.Evals,
		"distinct_nontrivial":           res.Nontrivial,
		"rule":                          rep.Rule,
		"states":                        res.States,
		"transitions":                   res.Transitions,
		"traces_validated_against_impl": res.Validated,
		"exhaustive":                    rep.Exhaustive && !res.Capped,
		"bounds":                        rep.Bounds,
	}
	samples := []interface{}{}
	for _, s := range res.Samples {
		var v interface{}
		json.Unmarshal(s, &v)
		samples = append(samples, v)
	}
	if len(samples) == 0 {
		samples = append(samples, "no sample recorded")
	}
	cov["samples"] = samples
	if len(res.Counters) > 0 {
		cov["counters"] = res.Counters
	}
	if res.Outcomes != nil {
		cov["distinct_outcomes"] = len(res.Outcomes)
	}
	if len(res.Notes) > 0 {
		cov["notes"] = res.Notes
	}
	if len(knownHit) > 0 {
		cov["known_findings_observed"] = knownHit
	}
	for k, v := range rep.Extra {
		cov[k] = v
	}
	ev := map[string]interface{}{
		"property_id": rep.Property,
		"tier":        rep.Tier,
		"seed":        Seed(),
		"level":       rep.Level,
		"coverage":    cov,
		"assumptions": rep.Assumptions,
		"wall_s":      time.Since(rep.Start).Seconds(),
		"violations":  newViol,
	}
	b, _ := json.MarshalIndent(ev, "", " ")
	os.MkdirAll(filepath.Join(OutDir(), "evidence"), 0755)
	if err := os.WriteFile(filepath.Join(OutDir(), "evidence", rep.Property+".json"), append(b, '\n'), 0644); err != nil {
		EngineError("cannot write evidence: %v", err)
	}
	fmt.Fprintf(out, "%s %s: evaluations=%d nontrivial=%d states=%d transitions=%d validated=%d exhaustive=%v violations=%d known=%d wall=%.1fs\n",
		rep.Property, rep.Tier, res.Evals, res.Nontrivial, res.States, res.Transitions, res.Validated, cov["exhaustive"], newViol, len(knownHit), time.Since(rep.Start).Seconds())
	if newViol > 0 {
		return 1
	}
	return 0
}

func sanitize(s string) string {
	b := []byte(s)
	for i, c := range b {
		if !(c >= 'a' && c <= 'z' || c >= 'A' && c <= 'Z' || c >= '0' && c <= '9' || c == '-' || c == '_') {
			b[i] = '_'
		}
	}
	if len(b) > 60 {
		b = b[:60]
	}
	return string(b)
}

func oneLine(s string, n int) string {
	b := []byte(s)
	for i, c := range b {
		if c == '\n' {
			b[i] = ' '
		}
	}
	if len(b) > n {
		b = append(b[:n], "..."...)
	}
	return string(b)
}
