package main

// Reference model for `variants` output (C04, C13, C14): which positions are certainly different,
// which amino-acid changes are certain. Written from the property statement; independent of gofasta.

import (
	"fmt"
	"regexp"
	"sort"
	"strconv"
	"strings"
)

// colOfRefPos maps reference position (1-based) to alignment column for a gapped reference row.
func colOfRefPos(refRow string) []int {
	var cols []int
	for i := 0; i < len(refRow); i++ {
		if refRow[i] != '-' {
			cols = append(cols, i)
		}
	}
	return cols
}

type varModel struct {
	Disjoint map[int]string // reference position -> "nuc:<R><p><Q>"
	AA       map[string][]int // expected aa record "aa:<name>:<R><k><Q>" -> codon positions (coding order)
	Undefined map[string]bool // aa records neither required nor forbidden (reference codon itself ambiguous)
}

// modelVariants computes the expectations for one (reference row, query row) pair under an annotation.
func modelVariants(feats []Feat, refRow, qRow string) varModel {
	m := varModel{Disjoint: map[int]string{}, AA: map[string][]int{}, Undefined: map[string]bool{}}
	cols := colOfRefPos(refRow)
	for p := 1; p <= len(cols); p++ {
		r, q := refRow[cols[p-1]], qRow[cols[p-1]]
		m1, _ := maskOf(r, false)
		m2, _ := maskOf(q, false)
		if m1&m2 == 0 {
			m.Disjoint[p] = fmt.Sprintf("nuc:%c%d%c", upper(r), p, upper(q))
		}
	}
	for _, f := range feats {
		if f.Name == "" {
			continue
		}
		pos := f.codingPositions()
		for k := 0; k+3 <= len(pos); k += 3 {
			var rc, qc [3]byte
			for j := 0; j < 3; j++ {
				c := cols[pos[k+j]-1]
				rc[j], qc[j] = upper(refRow[c]), upper(qRow[c])
				if f.Reverse {
					rc[j], qc[j] = complementBase(rc[j]), complementBase(qc[j])
				}
			}
			R := translateAmbig(string(rc[:]))
			Q := translateAmbig(string(qc[:]))
			if R == 0 {
				continue
			}
			if Q != 0 && Q != R {
				m.AA[fmt.Sprintf("aa:%s:%c%d%c", f.Name, R, k/3+1, Q)] = []int{pos[k], pos[k+1], pos[k+2]}
			}
		}
	}
	return m
}

var reNuc = regexp.MustCompile(`^nuc:([A-Z?-])([0-9]+)([A-Z?-])$`)
var reAA = regexp.MustCompile(`^(aa:[^:()]+:[A-Z*][0-9]+[A-Z*])(\((.*)\))?$`)

// judgeVariants compares one output row with the model. Returns (cause, message) or "".
func judgeVariants(m varModel, list string, appendSNP bool, feats []Feat) (string, string) {
	mentioned := map[int]string{}
	gotAA := map[string]string{}
	if list != "" {
		for _, rec := range strings.Split(list, "|") {
			switch {
			case strings.HasPrefix(rec, "nuc:"):
				g := reNuc.FindStringSubmatch(rec)
				if g == nil {
					return "variants:format", "unparseable record " + rec
				}
				p, _ := strconv.Atoi(g[2])
				mentioned[p] = rec
			case strings.HasPrefix(rec, "aa:"):
				g := reAA.FindStringSubmatch(rec)
				if g == nil {
					return "variants:format", "unparseable record " + rec
				}
				if (g[2] != "") != appendSNP {
					return "variants:append-snps-format", fmt.Sprintf("record %s with --append-snps=%v", rec, appendSNP)
				}
				gotAA[g[1]] = g[3]
				if appendSNP && g[3] != "" {
					for _, n := range strings.Split(g[3], ";") {
						h := reNuc.FindStringSubmatch(n)
						if h == nil {
							return "variants:format", "unparseable snp " + n + " in " + rec
						}
						p, _ := strconv.Atoi(h[2])
						mentioned[p] = n
					}
				}
			case strings.HasPrefix(rec, "ins:"), strings.HasPrefix(rec, "del:"):
			default:
				return "variants:format", "unknown record " + rec
			}
		}
	}
	// aa soundness and completeness
	var aaKeys []string
	for k := range gotAA {
		aaKeys = append(aaKeys, k)
	}
	sort.Strings(aaKeys)
	for _, k := range aaKeys {
		if _, ok := m.AA[k]; !ok {
			return "variants:aa-unsound", fmt.Sprintf("record %s is reported but the model gives no certain amino-acid change there (expected aa records: %v)", k, keysOf(m.AA))
		}
	}
	for _, k := range keysOf(m.AA) {
		if _, ok := gotAA[k]; !ok {
			return "variants:aa-missing", fmt.Sprintf("certain amino-acid change %s is not reported (row: %q)", k, list)
		}
	}
	if appendSNP {
		for k, lst := range gotAA {
			want := []string{}
			for _, p := range m.AA[k] {
				if s, ok := m.Disjoint[p]; ok {
					want = append(want, s)
				}
			}
			got := []string{}
			if lst != "" {
				got = strings.Split(lst, ";")
			}
			a, b := append([]string{}, got...), append([]string{}, want...)
			sort.Strings(a)
			sort.Strings(b)
			if strings.Join(a, ";") != strings.Join(b, ";") {
				return "variants:append-snps-list", fmt.Sprintf("%s lists (%s), the codon's certain differences are (%s)", k, lst, strings.Join(want, ";"))
			}
		}
	}
	// nucleotide completeness / soundness (only decidable for aa-carried SNPs when they are printed)
	for p, s := range mentioned {
		if w, ok := m.Disjoint[p]; !ok {
			return "variants:snp-invented", fmt.Sprintf("%s is reported but reference and query base sets intersect at %d", s, p)
		} else if w != s {
			return "variants:snp-text", fmt.Sprintf("position %d reported as %s, expected %s", p, s, w)
		}
	}
	if appendSNP || len(gotAA) == 0 {
		var lost []int
		for p := range m.Disjoint {
			if _, ok := mentioned[p]; !ok {
				lost = append(lost, p)
			}
		}
		sort.Ints(lost)
		if len(lost) > 0 {
			cause := "variants:snp-lost"
			if inUnnamedOnly(feats, lost[0]) {
				cause = "variants:snp-lost-in-unnamed-gff-cds"
			}
			return cause, fmt.Sprintf("certain difference(s) at reference position(s) %v not mentioned anywhere in %q", lost, list)
		}
	} else {
		// without --append-snps the SNPs inside called codons are not printed: every other one must be
		covered := map[int]bool{}
		for k := range gotAA {
			for _, p := range m.AA[k] {
				covered[p] = true
			}
		}
		var lost []int
		for p := range m.Disjoint {
			if _, ok := mentioned[p]; !ok && !covered[p] {
				lost = append(lost, p)
			}
		}
		sort.Ints(lost)
		if len(lost) > 0 {
			cause := "variants:snp-lost"
			if inUnnamedOnly(feats, lost[0]) {
				cause = "variants:snp-lost-in-unnamed-gff-cds"
			}
			return cause, fmt.Sprintf("certain difference(s) at reference position(s) %v neither reported as nuc: nor inside a called codon, in %q", lost, list)
		}
	}
	return "", ""
}

func inUnnamedOnly(feats []Feat, p int) bool {
	named, unnamed := false, false
	for _, f := range feats {
		for _, s := range f.Segs {
			if p >= s.A && p <= s.B {
				if f.Name == "" {
					unnamed = true
				} else {
					named = true
				}
			}
		}
	}
	return unnamed && !named
}

func keysOf(m map[string][]int) []string {
	var k []string
	for s := range m {
		k = append(k, s)
	}
	sort.Strings(k)
	return k
}
