package main

// C16 — FASTA reading is layout-independent, strict, total and the same in every reader.
// Bounded-exhaustive over byte streams (instead of fuzzing) plus every layout of small alignments.

import (
	"bytes"
	"fmt"
	"strings"

	"harness/engine"

	"github.com/virus-evolution/gofasta/pkg/encoding"
	"github.com/virus-evolution/gofasta/pkg/fastaio"
	"github.com/virus-evolution/gofasta/pkg/variants"
	"github.com/virus-evolution/gofasta/pkg/zzvs"
)

type c16Case struct {
	Stream string `json:"stream"`
	Reader string `json:"reader,omitempty"` // restrict to one reader (replay)
	Cap    int    `json:"chancap,omitempty"` // capacity of the record channel handed to the streaming readers
}

type refRecord struct {
	ID, Desc, Seq string
}

// refParse is the reference parser. class: "valid", "invalid:<reason>", "undefined:<reason>".
func refParse(stream string) ([]refRecord, string) {
	// tokenisation as bufio.ScanLines: split at LF, drop one trailing CR, a final unterminated piece counts
	var lines []string
	rest := stream
	for len(rest) > 0 {
		i := strings.IndexByte(rest, '\n')
		var ln string
		if i < 0 {
			ln, rest = rest, ""
		} else {
			ln, rest = rest[:i], rest[i+1:]
		}
		ln = strings.TrimSuffix(ln, "\r")
		lines = append(lines, ln)
	}
	undefined, invalid := "", ""
	if len(lines) == 0 {
		return nil, "invalid:no records"
	}
	var recs []refRecord
	for i, ln := range lines {
		if ln == "" {
			if undefined == "" {
				undefined = "blank line"
			}
			continue
		}
		if i == 0 && ln[0] != '>' {
			invalid = "no leading header"
		}
		if ln[0] == '>' {
			f := strings.Fields(ln[1:])
			id := ""
			if len(f) == 0 {
				if undefined == "" {
					undefined = "header without ID"
				}
			} else {
				id = f[0]
			}
			recs = append(recs, refRecord{ID: id, Desc: ln[1:]})
			continue
		}
		if len(recs) == 0 {
			continue
		}
		for k := 0; k < len(ln); k++ {
			if _, ok := maskOf(ln[k], false); !ok {
				if invalid == "" {
					invalid = "symbol outside the IUPAC alphabet"
				}
			}
		}
		recs[len(recs)-1].Seq += strings.ToUpper(ln)
	}
	if lines[0] == "" && invalid == "" {
		// a leading blank line: 'no leading header' or skippable - undefined
		undefined = "blank line"
	}
	empty := 0
	for _, r := range recs {
		if r.Seq == "" {
			empty++
		}
	}
	if len(recs) > 0 && empty == len(recs) {
		if undefined == "" {
			undefined = "no record has any sequence"
		}
	} else {
		for _, r := range recs {
			if len(r.Seq) != len(recs[0].Seq) && invalid == "" {
				invalid = "unequal record lengths"
			}
		}
	}
	switch {
	case undefined != "":
		return recs, "undefined:" + undefined
	case invalid != "":
		return recs, "invalid:" + invalid
	}
	return recs, "valid"
}

type readResult struct {
	Outcome string // returned | panic | deadlock
	Err     string
	HasErr  bool
	Recs    []refRecord
	Idx     []int
	Score   []int64
	Counts  [][4]int
	Detail  string
}

// driveStream runs one of the channel-based readers under the controlled scheduler with a driver
// that selects on its three channels, as every caller in gofasta does.
func driveStream(reader string, stream string, chanCap ...int) readResult {
	ccap := 0
	if len(chanCap) > 0 {
		ccap = chanCap[0]
	}
	var rr readResult
	body := func() {
		cErr := make(chan error)
		cDone := make(chan bool)
		switch reader {
		case "plain":
			ch := make(chan fastaio.FastaRecord, ccap)
			zzvs.Go(func() { fastaio.ReadAlignment(strings.NewReader(stream), ch, cErr, cDone) }, "c16.drv")
			for {
				switch zzvs.Select("c16.sel", false, zzvs.CaseRecv(ch), zzvs.CaseRecv(cErr), zzvs.CaseRecv(cDone)) {
				case 0:
					r := <-ch
					rr.Recs = append(rr.Recs, refRecord{r.ID, r.Description, r.Seq})
					rr.Idx = append(rr.Idx, r.Idx)
				case 1:
					e := <-cErr
					rr.HasErr, rr.Err = true, e.Error()
					return
				case 2:
					<-cDone
					for len(ch) > 0 { // what the reader had queued before it signalled the end (buffered channel)
						r := <-ch
						rr.Recs = append(rr.Recs, refRecord{r.ID, r.Description, r.Seq})
						rr.Idx = append(rr.Idx, r.Idx)
					}
					return
				}
			}
		default:
			ch := make(chan fastaio.EncodedFastaRecord, ccap)
			zzvs.Go(func() {
				if reader == "score" {
					fastaio.ReadEncodeScoreAlignment(strings.NewReader(stream), false, ch, cErr, cDone)
				} else {
					fastaio.ReadEncodeAlignment(strings.NewReader(stream), false, ch, cErr, cDone)
				}
			}, "c16.drv")
			// the records are kept as delivered and only decoded when the stream has ended (as closest does with
			// its query list and the list reader's callers do): a record must stay what it was when it was sent
			var kept []fastaio.EncodedFastaRecord
			defer func() {
				for _, r := range kept {
					rr.Recs = append(rr.Recs, refRecord{r.ID, r.Description, r.Decode().Seq})
				}
			}()
			for {
				switch zzvs.Select("c16.sel", false, zzvs.CaseRecv(ch), zzvs.CaseRecv(cErr), zzvs.CaseRecv(cDone)) {
				case 0:
					r := <-ch
					kept = append(kept, r)
					rr.Idx = append(rr.Idx, r.Idx)
					rr.Score = append(rr.Score, r.Score)
					rr.Counts = append(rr.Counts, [4]int{r.Count_A, r.Count_C, r.Count_G, r.Count_T})
				case 1:
					e := <-cErr
					rr.HasErr, rr.Err = true, e.Error()
					return
				case 2:
					<-cDone
					for len(ch) > 0 {
						r := <-ch
						kept = append(kept, r)
						rr.Idx = append(rr.Idx, r.Idx)
						rr.Score = append(rr.Score, r.Score)
						rr.Counts = append(rr.Counts, [4]int{r.Count_A, r.Count_C, r.Count_G, r.Count_T})
					}
					return
				}
			}
		}
	}
	r := zzvs.Run(nil, 2, body)
	if r.Outcome == "engine-timeout" {
		engine.EngineError("watchdog in FASTA reader %s on %q", reader, stream)
	}
	rr.Outcome = r.Outcome
	if r.Outcome == "panic" {
		rr.Detail = r.PanicV
	}
	if r.Outcome == "deadlock" {
		rr.Detail = strings.Join(r.Blocked, "; ")
	}
	return rr
}

func readList(stream string) (rr readResult) {
	defer func() {
		if p := recover(); p != nil {
			rr = readResult{Outcome: "panic", Detail: fmt.Sprint(p)}
		}
	}()
	recs, err := fastaio.ReadEncodeAlignmentToList(strings.NewReader(stream), false)
	rr.Outcome = "returned"
	if err != nil {
		rr.HasErr, rr.Err = true, err.Error()
		return
	}
	for _, r := range recs {
		rr.Recs = append(rr.Recs, refRecord{r.ID, r.Description, r.Decode().Seq})
		rr.Idx = append(rr.Idx, r.Idx)
	}
	return
}

const c16GFF = "##gff-version 3\n"

// readViaVariants exercises findReference (+ the streaming reader behind it) through variants.Variants.
func readViaVariants(stream, refID string) (readResult, string) {
	var out bytes.Buffer
	var err error
	r := zzvs.Run(nil, 1, func() {
		err = variants.Variants(bytes.NewReader([]byte(stream)), false, refID, strings.NewReader(c16GFF), "gff", &out, -1, -1, false, 0, false, 1)
	})
	if r.Outcome == "engine-timeout" {
		engine.EngineError("watchdog in variants on %q", stream)
	}
	rr := readResult{Outcome: r.Outcome}
	if r.Outcome == "returned" && err != nil {
		rr.HasErr, rr.Err = true, err.Error()
	}
	if r.Outcome == "panic" {
		rr.Detail = r.PanicV
	}
	if r.Outcome == "deadlock" {
		rr.Detail = strings.Join(r.Blocked, "; ")
	}
	return rr, out.String()
}

var c16Readers = []string{"plain", "encode", "score", "list", "findref"}

func c16Check(c c16Case, res *engine.JobResult) {
	want, class := refParse(c.Stream)
	res.Evals++
	if class == "valid" {
		res.Nontrivial++
	}
	for _, rd := range c16Readers {
		if c.Reader != "" && c.Reader != rd {
			continue
		}
		var rr readResult
		var vout string
		refID := ""
		switch rd {
		case "list":
			rr = readList(c.Stream)
		case "findref":
			refID = "A"
			if len(want) > 0 && want[len(want)-1].ID != "" {
				refID = want[len(want)-1].ID
			}
			rr, vout = readViaVariants(c.Stream, refID)
		default:
			rr = driveStream(rd, c.Stream, c.Cap)
		}
		cc := c16Case{c.Stream, rd, c.Cap}
		if rr.Outcome != "returned" {
			cause := "fasta:" + rr.Outcome
			switch {
			case strings.HasPrefix(class, "undefined:blank line"):
				cause += "-on-blank-line"
			case strings.HasPrefix(class, "undefined:header without ID"):
				cause += "-on-header-without-id"
			}
			res.Violate(cause, fmt.Sprintf("reader %s on stream %q (%s): %s %s", rd, c.Stream, class, rr.Outcome, rr.Detail), cc)
			continue
		}
		switch {
		case strings.HasPrefix(class, "undefined"):
			// only totality is required
		case strings.HasPrefix(class, "invalid"):
			if rd == "plain" && class == "invalid:symbol outside the IUPAC alphabet" {
				continue
			}
			if rd == "findref" {
				// variants may stop at the reference record without reading on; rejection is required only
				// if the defect precedes or is in what it has to read - judged for totality only
				continue
			}
			if !rr.HasErr {
				res.Violate("fasta:invalid-stream-accepted", fmt.Sprintf("reader %s accepts stream %q although it is invalid (%s); it yields %v", rd, c.Stream, class, rr.Recs), cc)
			}
		default: // valid
			if rr.HasErr {
				res.Violate("fasta:valid-stream-rejected", fmt.Sprintf("reader %s rejects the valid stream %q: %s", rd, c.Stream, rr.Err), cc)
				continue
			}
			if rd == "findref" {
				// rows for every record whose ID differs from the reference ID, in order
				var names []string
				for _, r := range want {
					if r.ID != refID {
						names = append(names, r.ID)
					}
				}
				m, order, ok := parseVariantRows(vout)
				_ = m
				if !ok || strings.Join(order, ",") != strings.Join(names, ",") {
					res.Violate("fasta:findreference-disagrees", fmt.Sprintf("variants --reference %s on %q writes rows %v, the records other than the reference are %v", refID, c.Stream, order, names), cc)
				}
				continue
			}
			if len(rr.Recs) != len(want) {
				res.Violate("fasta:record-count", fmt.Sprintf("reader %s yields %d records from %q, expected %d (%v)", rd, len(rr.Recs), c.Stream, len(want), want), cc)
				continue
			}
			for i := range want {
				if rr.Recs[i] != want[i] || rr.Idx[i] != i {
					res.Violate("fasta:record-content", fmt.Sprintf("reader %s record %d of %q: got %+v idx %d, expected %+v idx %d", rd, i, c.Stream, rr.Recs[i], rr.Idx[i], want[i], i), cc)
					break
				}
				if rd == "score" {
					var cnt [4]int
					for k := 0; k < len(want[i].Seq); k++ {
						switch want[i].Seq[k] {
						case 'A':
							cnt[0]++
						case 'C':
							cnt[1]++
						case 'G':
							cnt[2]++
						case 'T':
							cnt[3]++
						}
					}
					if rr.Score[i] != int64(completeness(want[i].Seq)) || rr.Counts[i] != cnt {
						res.Violate("fasta:score-or-counts", fmt.Sprintf("scoring reader record %d of %q: score %d counts %v, expected %d %v", i, c.Stream, rr.Score[i], rr.Counts[i], completeness(want[i].Seq), cnt), cc)
						break
					}
				}
			}
		}
	}
}

const c16Alpha = ">AcN-x \n\r"

func c16Stream(L, v int) string {
	b := make([]byte, L)
	for i := L - 1; i >= 0; i-- {
		b[i] = c16Alpha[v%len(c16Alpha)]
		v /= len(c16Alpha)
	}
	return string(b)
}

type c16Aln struct {
	Headers []string
	Seqs    []string
}

func c16Alignments(tier string) []c16Aln {
	a := []c16Aln{
		{[]string{"s1"}, []string{"ACGT"}},
		{[]string{"s1 first record", "s2"}, []string{"ACN", "T-G"}},
		{[]string{"a", "b extra  words"}, []string{"RYKM", "ACGT"}},
		{[]string{"x|1/2", "y"}, []string{"A", "C"}},
		{[]string{"s1", "s2"}, []string{"AC?T", "NNNN"}},
		{[]string{"q\tt", "r"}, []string{"AAC", "GGT"}},
	}
	if tier == "thorough" {
		a = append(a,
			c16Aln{[]string{"s1", "s2", "s3"}, []string{"ACGTA", "NNNNN", "A-C-G"}},
			c16Aln{[]string{"one", "two words", "three"}, []string{"ACG", "TTT", "BDH"}},
			c16Aln{[]string{"u", "v", "w"}, []string{"AC", "GT", "VN"}},
			c16Aln{[]string{"s1"}, []string{"ACGTN"}},
			c16Aln{[]string{"k1 d", "k2 d"}, []string{"SWSWS", "ACGTA"}},
			c16Aln{[]string{"m", "n", "o"}, []string{"A", "C", "G"}},
		)
	}
	return a
}

// compositions of a sequence into lines
func breakings(s string) [][]string {
	if len(s) <= 1 {
		return [][]string{{s}}
	}
	var out [][]string
	for mask := 0; mask < 1<<(len(s)-1); mask++ {
		var parts []string
		start := 0
		for i := 0; i < len(s)-1; i++ {
			if mask>>i&1 == 1 {
				parts = append(parts, s[start:i+1])
				start = i + 1
			}
		}
		parts = append(parts, s[start:])
		out = append(out, parts)
	}
	return out
}

func c16Layouts(a c16Aln, f func(stream string, blank bool)) (nodes int) {
	var lay func(i int, lines []string)
	emit := func(lines []string) {
		for _, cm := range []int{0, 1, 2} {
			for _, eol := range []string{"\n", "\r\n"} {
				for _, final := range []bool{true, false} {
					var ls []string
					for _, l := range lines {
						if l[0] != '>' {
							l = caseMode(l, cm)
						}
						ls = append(ls, l)
					}
					s := strings.Join(ls, eol)
					if final {
						s += eol
					}
					nodes++
					f(s, false)
					if cm == 0 && final {
						// a blank line at every line boundary
						for k := 0; k <= len(ls); k++ {
							with := append(append(append([]string{}, ls[:k]...), ""), ls[k:]...)
							nodes++
							f(strings.Join(with, eol)+eol, true)
						}
					}
				}
			}
		}
	}
	lay = func(i int, lines []string) {
		if i == len(a.Seqs) {
			emit(lines)
			return
		}
		for _, br := range breakings(a.Seqs[i]) {
			lay(i+1, append(append(append([]string{}, lines...), ">"+a.Headers[i]), br...))
		}
	}
	lay(0, nil)
	return
}

func init() {
	register(&Prop{
		ID:    "C16",
		Level: "model_checking",
		Rule: "bounded-exhaustive over byte streams: (1) every byte string of length <=5 (thorough 6) over the 9-byte alphabet {> A c N - x SP LF CR} given to the five readers (ReadAlignment, ReadEncodeAlignment, ReadEncodeScoreAlignment - each driven under the controlled scheduler by a select loop on their three channels -, ReadEncodeAlignmentToList, and findReference through variants.Variants), thorough additionally every string of length 7 to the synchronous list reader; (2) for 6 (thorough 12) small valid alignments every way of breaking each sequence into lines x {upper,lower,mixed case} x {LF,CRLF} x {final newline, none} and a blank line inserted at every line boundary; (3) structured corruptions of those alignments: every truncation, single-byte deletion, replacement by / insertion of one of {>, x, SP, LF, -, NUL, 0xC3, TAB} at every offset, every line dropped or doubled. " +
			"A 30-line reference parser classifies each stream valid / invalid / undefined. Non-trivial = valid stream; each stream generated once",
		Assumptions: []string{
			"line tokenisation is bufio.ScanLines' (split at LF, one trailing CR dropped)",
			"valid streams: all readers must yield the reference parser's records (ID = first whitespace-delimited header token, description, upper-cased sequence, index), the scoring reader also completeness and A/C/G/T counts; invalid streams (no leading header, no records, unequal record lengths, non-IUPAC symbol) must be rejected by the encoding readers (the plain-text reader is not judged on symbol strictness, findReference only for totality); streams with blank lines, headers without ID, or no sequence at all are judged for 'no panic, no hang' only",
			"panic and deadlock are exact outcomes of the controlled scheduler (no time-outs)",
		},
		Bounds: func(tier string) map[string]interface{} {
			return map[string]interface{}{"alphabet": c16Alpha, "max_stream_length": map[string]int{"quick": 5, "thorough": 6}[tier], "alignments": len(c16Alignments(tier))}
		},
		Plan: func(tier string) ([]string, *engine.JobResult) {
			var jobs []string
			maxL := 5
			if tier == "thorough" {
				maxL = 6
				for s := 0; s < 32; s++ {
					jobs = append(jobs, fmt.Sprintf("len7:%d/32", s))
				}
			}
			for L := maxL; L >= 0; L-- {
				n := 1
				for i := 0; i < L; i++ {
					n *= len(c16Alpha)
				}
				for b := 0; b < n; b += 6000 {
					jobs = append(jobs, fmt.Sprintf("bytes:%d:%d", L, b))
				}
			}
			for i := range c16Alignments(tier) {
				jobs = append(jobs, fmt.Sprintf("layout:%d", i))
				jobs = append(jobs, fmt.Sprintf("corrupt:%d", i))
				if i == 0 {
					jobs = append(jobs, "many", "readersconc-ref")
				}
			}
			jobs = append(jobs, "cli")
			return jobs, nil
		},
		Exec: func(tier, job string) *engine.JobResult {
			res := &engine.JobResult{}
			defer func() { res.Transitions = res.States }()
			if strings.HasPrefix(job, "case:") {
				var c c16Case
				mustJSON(job[5:], &c)
				c16Check(c, res)
				return res
			}
			p := strings.Split(job, ":")
			switch p[0] {
			case "bytes":
				var L, b0 int
				fmt.Sscan(p[1], &L)
				fmt.Sscan(p[2], &b0)
				n := 1
				for i := 0; i < L; i++ {
					n *= len(c16Alpha)
				}
				for v := b0; v < b0+6000 && v < n; v++ {
					c := c16Case{Stream: c16Stream(L, v)}
					c16Check(c, res)
					res.States++
					if L == 5 && v == 1234 {
						res.Sample(c)
					}
				}
			case "len7":
				var s, n int
				fmt.Sscanf(p[1], "%d/%d", &s, &n)
				tot := 1
				for i := 0; i < 7; i++ {
					tot *= len(c16Alpha)
				}
				for v := s; v < tot; v += n {
					c16Check(c16Case{Stream: c16Stream(7, v), Reader: "list"}, res)
					res.States++
				}
			case "layout":
				var i int
				fmt.Sscan(p[1], &i)
				a := c16Alignments(tier)[i]
				nodes := c16Layouts(a, func(stream string, blank bool) {
					c16Check(c16Case{Stream: stream}, res)
				})
				res.States += nodes
			case "corrupt":
				// structured corruptions of a valid alignment (one line per record, and lines of width 2):
				// every truncation, every single-byte deletion, every single-byte replacement by and every
				// insertion of one of {'>', 'x', ' ', LF, '-', NUL, 0xC3, TAB}, every line dropped, every line doubled
				var i int
				fmt.Sscan(p[1], &i)
				a := c16Alignments(tier)[i]
				for _, w := range []int{0, 2} {
					var lines []string
					for k := range a.Seqs {
						lines = append(lines, ">"+a.Headers[k])
						lines = append(lines, strings.Split(wrapSeq(a.Seqs[k], w), "\n")...)
					}
					base := strings.Join(lines, "\n") + "\n"
					seen := map[string]bool{}
					try := func(st string) {
						if seen[st] {
							return
						}
						seen[st] = true
						c16Check(c16Case{Stream: st}, res)
						res.States++
					}
					for k := 0; k <= len(base); k++ {
						try(base[:k])
						for _, b := range []byte(">x \n-\x00\xc3\t") {
							try(base[:k] + string(b) + base[k:])
							if k < len(base) {
								try(base[:k] + string(b) + base[k+1:])
							}
						}
						if k < len(base) {
							try(base[:k] + base[k+1:])
						}
					}
					for k := range lines {
						drop := append(append([]string{}, lines[:k]...), lines[k+1:]...)
						try(strings.Join(drop, "\n") + "\n")
						dbl := append(append(append([]string{}, lines[:k+1]...), lines[k]), lines[k+1:]...)
						try(strings.Join(dbl, "\n") + "\n")
					}
				}
			case "readersconc-ref":
				// the canonical schedule of the concurrent-readers scenarios against the two gap encodings
				for _, st := range []string{">a\nAC-GT\n>b x\nNN-AC\n>c\nRY--A\n", ">a\nAC\n-GT\n>b\nNN\n-AC\n"} {
					call := Call{Cmd: "readersconc", Msa: st, NCPU: 2}
					o := call.Canon()
					want := ""
					for gi, hard := range []bool{true, false} {
						ea := encoding.MakeEncodingArray()
						if hard {
							ea = encoding.MakeEncodingArrayHardGaps()
						}
						want += []string{"stream/hard ", "list/soft "}[gi]
						recs, _ := refParse(st)
						for _, r := range recs {
							enc := make([]byte, len(r.Seq))
							for k := 0; k < len(r.Seq); k++ {
								enc[k] = ea[r.Seq[k]]
							}
							want += fmt.Sprintf("%s:%v;", r.ID, enc)
						}
						want += "\n"
					}
					res.Evals++
					res.Nontrivial++
					if o.Outcome != "returned" || o.Out != want {
						res.Violate("fasta:concurrent-readers-canonical", fmt.Sprintf("two readers at once on %q give %s %q; expected %q", st, o.Outcome, o.Out, want), c16Case{Stream: st})
					}
				}
			case "many":
				// alignments of 1..12, 60 and 130 distinct records (more than any channel buffer in gofasta), through
				// unbuffered and buffered record channels, every record kept by the consumer until the stream ends
				for _, n := range []int{1, 2, 3, 4, 5, 6, 7, 8, 9, 10, 11, 12, 60, 130} {
					for _, w := range []int{0, 3} {
						var sb strings.Builder
						for i := 0; i < n; i++ {
							seq := []byte("ACGTNN-A")
							seq[i%8] = "ACGTRYKMSW"[i%10]
							if i%3 == 1 {
								seq[(i/8+3)%8] = "ctgan"[(i/8)%5]
							}
							fmt.Fprintf(&sb, ">r%d rec %d\n%s\n", i, i, wrapSeq(string(seq), w))
						}
						for _, cp := range []int{0, 1, 5, 52} {
							c16Check(c16Case{Stream: sb.String(), Cap: cp}, res)
							res.States++
						}
					}
				}
			case "cli":
				// bind: `gofasta snps` (streaming reader) exit status on a slice of the length-4 streams
				n := 1
				for i := 0; i < 4; i++ {
					n *= len(c16Alpha)
				}
				for v := engine.Seed() % 11; v < n; v += 11 {
					st := c16Stream(4, v)
					_, class := refParse(st)
					call := Call{Cmd: "snps", Ref: fastaOf("r", "A"), Msa: st}
					ob, _ := call.CLI(nil, 0)
					res.Evals++
					res.Validated++
					rr := driveStream("encode", st)
					if ob.Outcome == "panic" && rr.Outcome != "panic" || ob.Outcome == "timeout" && rr.Outcome != "deadlock" {
						res.Violate("fasta:binary-differs", fmt.Sprintf("real binary `snps` on stream %q (%s): %s %s; controlled reader: %s", st, class, ob.Outcome, ob.Detail, rr.Outcome), c16Case{Stream: st})
					}
					if rr.Outcome == "returned" && rr.HasErr && !(ob.Outcome == "returned" && ob.HasErr) {
						res.Violate("fasta:binary-differs", fmt.Sprintf("controlled reader rejects %q (%s) but the real binary `snps` ends %s err=%v", st, rr.Err, ob.Outcome, ob.HasErr), c16Case{Stream: st})
					}
				}
			}
			return res
		},
	})
}
