package main

// C08 — updown topranking bins, ranks and limits neighbours exactly as specified.

import (
	"fmt"
	"strings"

	"harness/engine"
)

type c08Case struct {
	Ref     string   `json:"ref"`
	Queries []udRec  `json:"queries"`
	Targets []udRec  `json:"targets"`
	Opts    udOpts   `json:"opts"`
	Table   bool     `json:"table"`
	QType   string   `json:"qtype,omitempty"`
	TType   string   `json:"ttype,omitempty"`
}

func udFasta(rs []udRec) string {
	var p []string
	for _, r := range rs {
		p = append(p, r.Name, r.Seq)
	}
	return fastaOf(p...)
}

var csvCache = map[string]string{}

// udCSV converts an alignment with the real `updown list`.
func udCSV(ref string, rs []udRec) string {
	key := ref + "|" + udFasta(rs)
	if v, ok := csvCache[key]; ok {
		return v
	}
	c := Call{Cmd: "list", Ref: fastaOf("r", ref), Msa: udFasta(rs), NCPU: 1}
	o := c.Canon()
	if o.Outcome != "returned" || o.HasErr {
		engine.EngineError("updown list failed while preparing CSV input: %v", o)
	}
	if len(csvCache) > 5000 {
		csvCache = map[string]string{}
	}
	csvCache[key] = o.Out
	return o.Out
}

func (c c08Case) call() Call {
	o := c.Opts
	call := Call{Cmd: "topranking", Ref: fastaOf("r", c.Ref), Table: c.Table, QType: "fasta", TType: "fasta",
		SizeTotal: o.SizeTotal, SizeUp: o.SizeUp, SizeDown: o.SizeDown, SizeSide: o.SizeSide, SizeSame: o.SizeSame,
		DistAll: o.DistAll, DistUp: o.DistUp, DistDown: o.DistDown, DistSide: o.DistSide, DistPush: o.DistPush,
		ThreshPair: o.ThreshPair, ThreshPairSet: true, ThreshTarget: o.ThreshTarget, ThreshTargetSet: true, NoFill: o.NoFill, Ignore: o.Ignore, NCPU: 2}
	call.Query, call.Target = udFasta(c.Queries), udFasta(c.Targets)
	if c.QType == "csv" {
		call.QType, call.Query = "csv", udCSV(c.Ref, c.Queries)
	}
	if c.TType == "csv" {
		call.TType, call.Target = "csv", udCSV(c.Ref, c.Targets)
	}
	return call
}

func c08Cause(c c08Case, bin int, got, want []string) string {
	o := c.Opts
	switch {
	case o.DistPush > 0:
		return "topranking:dist-push"
	case len(o.Ignore) > 0:
		return "topranking:ignore"
	}
	gs, ws := map[string]bool{}, map[string]bool{}
	for _, g := range got {
		gs[strings.SplitN(g, ":", 2)[0]] = true
	}
	for _, w := range want {
		ws[strings.SplitN(w, ":", 2)[0]] = true
	}
	sameSet := len(gs) == len(ws)
	for k := range gs {
		if !ws[k] {
			sameSet = false
		}
	}
	sized := o.SizeTotal != 0 || o.SizeUp != 0 || o.SizeDown != 0 || o.SizeSide != 0 || o.SizeSame != 0
	switch {
	case sameSet && len(got) == len(want):
		return "topranking:order-within-bin"
	case sized && len(got) != len(want):
		return "topranking:bin-size"
	case sized:
		return "topranking:bin-membership-under-size"
	}
	return "topranking:classification"
}

func c08Check(c c08Case, res *engine.JobResult, attribute bool) {
	call := c.call()
	o := call.Canon()
	res.Evals += len(c.Queries)
	if o.Outcome != "returned" || o.HasErr {
		if attribute && len(c.Queries) > 1 {
			for _, q := range c.Queries {
				cc := c
				cc.Queries = []udRec{q}
				c08Check(cc, res, false)
			}
			return
		}
		res.Violate("topranking:"+o.Outcome+"-on-valid-input", fmt.Sprintf("valid input not processed: %s %s", o.String(), o.Detail), c)
		return
	}
	var got map[string][4][]string
	var order []string
	var ok bool
	if c.Table {
		got, order, ok = udParseTable(o.Out)
	} else {
		got, order, ok = udParseList(o.Out)
	}
	if !ok {
		res.Violate("topranking:output-format", fmt.Sprintf("cannot parse output %q", o.Out), c)
		return
	}
	if !c.Table {
		if len(order) != len(c.Queries) {
			res.Violate("topranking:rows", fmt.Sprintf("expected one row per query (%d), got %d", len(c.Queries), len(order)), c)
			return
		}
		for i, q := range c.Queries {
			if order[i] != q.Name {
				res.Violate("topranking:row-order", fmt.Sprintf("row %d is %s, expected %s", i, order[i], q.Name), c)
				return
			}
		}
	} else {
		// table rows appear in query order (queries without neighbours have no rows)
		qi := 0
		for _, n := range order {
			for qi < len(c.Queries) && c.Queries[qi].Name != n {
				qi++
			}
			if qi == len(c.Queries) {
				res.Violate("topranking:row-order", fmt.Sprintf("table rows not in query order: %v", order), c)
				return
			}
		}
	}
	for _, q := range c.Queries {
		want, sameAny := udExpect(c.Ref, q, c.Targets, c.Opts)
		nz := false
		for b := 0; b < 4; b++ {
			var w []string
			for _, h := range want[b] {
				if c.Table {
					w = append(w, fmt.Sprintf("%s:%d", h.Name, h.Dist))
				} else {
					w = append(w, h.Name)
				}
			}
			if len(w) > 0 {
				nz = true
			}
			g := got[q.Name][b]
			equal := strings.Join(g, ";") == strings.Join(w, ";")
			if !equal && b == binSame && sameAny {
				// order inside `same` is unspecified under --dist-push: compare as multisets
				equal = multisetKey(strings.Join(g, "|")) == multisetKey(strings.Join(w, "|"))
			}
			if !equal {
				if attribute && len(c.Queries) > 1 {
					cc := c
					cc.Queries = []udRec{q}
					before := res.Counters["violations_total"]
					c08Check(cc, res, false)
					if res.Counters["violations_total"] == before {
						res.Violate("topranking:query-in-context", fmt.Sprintf("query %s bin %s: got %v want %v (only with the other queries present)", q.Name, binNames[b], g, w), c)
					}
					break
				}
				res.Violate(c08Cause(c, b, g, w), fmt.Sprintf("query %s=%s, reference %s, targets %v, options %+v table=%v: bin %s is %v, expected %v", q.Name, q.Seq, c.Ref, c.Targets, c.Opts, c.Table, binNames[b], g, w), c)
				break
			}
		}
		if nz {
			res.Nontrivial++
		}
	}
}

// ---- layer A: classification ----

func allSeqs(alpha string, L int) []string {
	n := 1
	for i := 0; i < L; i++ {
		n *= len(alpha)
	}
	out := make([]string, n)
	for v := 0; v < n; v++ {
		b := make([]byte, L)
		x := v
		for i := L - 1; i >= 0; i-- {
			b[i] = alpha[x%len(alpha)]
			x /= len(alpha)
		}
		out[v] = string(b)
	}
	return out
}

func c08LayerA(tier string, shard, nshard int, res *engine.JobResult) {
	seqs := allSeqs("ACGN", 4)
	var targets []udRec
	for i, s := range seqs {
		targets = append(targets, udRec{fmt.Sprintf("t%d", i), s})
	}
	type optset struct {
		tp float32
		tt int
		ig bool
	}
	var opts []optset
	for _, tp := range []float32{0, 0.25, 0.5, 1} {
		for _, tt := range []int{0, 1, 2, 10000} {
			opts = append(opts, optset{tp, tt, false})
		}
	}
	opts = append(opts, optset{0.5, 10000, true})
	const qb = 16
	job := 0
	for oi, os := range opts {
		if tier == "quick" && !(os.tt == 10000 || os.tp == 0.5) {
			continue
		}
		for q0 := 0; q0 < len(seqs); q0 += qb {
			job++
			if job%nshard != shard {
				continue
			}
			var qs []udRec
			for i := q0; i < q0+qb; i++ {
				qs = append(qs, udRec{fmt.Sprintf("q%d", i), seqs[i]})
			}
			o := udOpts{DistAll: 100, ThreshPair: os.tp, ThreshTarget: os.tt}
			if os.ig {
				o.Ignore = []string{"t0", "t5", "t77", "t255", "nosuch"}
			}
			c := c08Case{Ref: "AAAA", Queries: qs, Targets: targets, Opts: o, Table: (oi+q0/qb)%2 == 0}
			c08Check(c, res, true)
			res.States += len(qs) * len(targets)
			if q0 == 32 && oi == 3 {
				res.Sample(c08Case{Ref: "AAAA", Queries: qs[:1], Targets: targets[:6], Opts: o, Table: true})
			}
		}
	}
}

// ---- layer B: size arithmetic ----

// c08Supply builds targets realising the given supply per bin on an 8-column reference; candidates of one
// bin have distinct distances.
func c08Supply(s [4]int) []udRec {
	// query CCCAAAAA
	pool := [4][]string{
		{"CCCAAAAA", "CCCAAAAA", "CCCAAAAA"},   // same (duplicates, tie on everything -> file order)
		{"CCAAAAAA", "CAAAAAAA", "AAAAAAAA"},   // up: d 1,2,3
		{"CCCGAAAA", "CCCGGAAA", "CCCGGGAA"},   // down: d 1,2,3
		{"CCAGAAAA", "CAAGAAAA", "CAAGGAAA"},   // side: d 2,3,4
	}
	var out []udRec
	// interleave the bins in the file so that file order differs from bin order
	for k := 0; k < 3; k++ {
		for b := 3; b >= 0; b-- {
			if k < s[b] {
				out = append(out, udRec{fmt.Sprintf("%s%d", binNames[b], k), pool[b][k]})
			}
		}
	}
	return out
}

func c08LayerB(tier string, shard, nshard int, res *engine.JobResult) {
	maxS := 2
	if tier == "thorough" {
		maxS = 3
	}
	q := []udRec{{"q", "CCCAAAAA"}}
	idx := 0
	for s0 := 0; s0 <= 3; s0++ {
		for s1 := 0; s1 <= 3; s1++ {
			for s2 := 0; s2 <= 3; s2++ {
				for s3 := 0; s3 <= 3; s3++ {
					idx++
					if idx%nshard != shard {
						continue
					}
					sup := [4]int{s0, s1, s2, s3}
					targets := c08Supply(sup)
					if len(targets) == 0 {
						continue
					}
					var optsets []udOpts
					for r0 := 0; r0 <= maxS; r0++ {
						for r1 := 0; r1 <= maxS; r1++ {
							for r2 := 0; r2 <= maxS; r2++ {
								for r3 := 0; r3 <= maxS; r3++ {
									if r0+r1+r2+r3 == 0 {
										continue
									}
									optsets = append(optsets, udOpts{SizeSame: r0, SizeUp: r1, SizeDown: r2, SizeSide: r3})
								}
							}
						}
					}
					for t := 1; t <= 8; t++ {
						optsets = append(optsets, udOpts{SizeTotal: t})
					}
					for oi, o := range optsets {
						for _, nf := range []bool{false, true} {
							o.NoFill = nf
							o.ThreshPair, o.ThreshTarget = 0.1, 10000
							c := c08Case{Ref: "AAAAAAAA", Queries: q, Targets: targets, Opts: o, Table: (oi+idx)%2 == 0}
							c08Check(c, res, false)
							res.States++
						}
					}
				}
			}
		}
	}
}

// ---- layers C and D: ranking inside one bin; --dist-push ----

func c08LayerC(tier string, shard, nshard int, res *engine.JobResult) {
	// candidate types per bin: distance 1..3 x ambiguity 0/1 (an N in a column where nobody has a SNP)
	type ctype struct{ seq string }
	types := map[int][]string{
		binUp:   {"CCAAAAAA", "CCAAAAAN", "CAAAAAAA", "CAAAAAAN", "AAAAAAAA", "AAAAAAAN"},
		binDown: {"CCCGAAAA", "CCCGAAAN", "CCCGGAAA", "CCCGGAAN", "CCCGGGAA", "CCCGGGAN"},
		binSide: {"CCAGAAAA", "CCAGAAAN", "CAAGAAAA", "CAAGAAAN", "CAAGGAAA", "CAAGGAAN"},
	}
	q := []udRec{{"q", "CCCAAAAA"}}
	idx := 0
	for _, bin := range []int{binUp, binDown, binSide} {
		seqsOver(6, 4, func(ix []int) {
			idx++
			if idx%nshard != shard {
				return
			}
			var targets []udRec
			for k, i := range ix {
				targets = append(targets, udRec{fmt.Sprintf("c%d", k), types[bin][i]})
			}
			// one target in every other bin so that they are not empty
			targets = append(targets, udRec{"same0", "CCCAAAAA"})
			var optsets []udOpts
			for size := 1; size <= 3; size++ {
				for _, dist := range []int{0, 1, 2} {
					o := udOpts{}
					switch bin {
					case binUp:
						o.SizeUp, o.DistUp = size, dist
					case binDown:
						o.SizeDown, o.DistDown = size, dist
					default:
						o.SizeSide = size
						if dist > 0 {
							o.DistSide = dist + 1
						}
					}
					if dist > 0 && bin != binSide {
						// per-bin distances: the other bins get a limit too (0 would mean "nothing")
						o.DistUp, o.DistDown, o.DistSide = maxInt(o.DistUp, 1), maxInt(o.DistDown, 1), maxInt(o.DistSide, 1)
					}
					optsets = append(optsets, o)
				}
			}
			for _, k := range []int{1, 2} {
				optsets = append(optsets, udOpts{DistPush: k})
			}
			optsets = append(optsets, udOpts{DistAll: 2}, udOpts{SizeTotal: 4}, udOpts{SizeTotal: 4, NoFill: true})
			for oi, o := range optsets {
				o.ThreshPair, o.ThreshTarget = 0.1, 10000
				c := c08Case{Ref: "AAAAAAAA", Queries: q, Targets: targets, Opts: o, Table: (oi+idx)%2 == 0}
				// every third case takes its inputs as the CSV that `updown list` derives from them (the
				// statement is about the data, whichever of the two documented input forms carries it)
				if (oi+idx)%3 == 0 {
					c.QType, c.TType = "csv", "csv"
				}
				c08Check(c, res, false)
				res.States++
				if idx == 900 && oi == 2 {
					res.Sample(c)
				}
			}
		})
	}
	// many tied candidates in one bin: order must stay file order beyond insertion-sort sizes
	if shard == 0 {
		for _, n := range []int{13, 20, 30} {
			var targets []udRec
			for i := 0; i < n; i++ {
				targets = append(targets, udRec{fmt.Sprintf("u%02d", i), []string{"CAAAAAAA", "CCAAAAAA", "CCAAAAAN"}[i%3]})
			}
			for _, o := range []udOpts{{DistAll: 3}, {SizeUp: n - 2, NoFill: true}, {DistPush: 2}, {SizeTotal: n}} {
				o.ThreshPair, o.ThreshTarget = 0.1, 10000
				c08Check(c08Case{Ref: "AAAAAAAA", Queries: q, Targets: targets, Opts: o, Table: n%2 == 0}, res, false)
				res.States++
			}
		}
	}
}

func maxInt(a, b int) int {
	if a > b {
		return a
	}
	return b
}

func c08CLI(res *engine.JobResult) {
	q := []udRec{{"q", "CCCAAAAA"}, {"q2", "CCAAAAAN"}}
	k := 0
	for s0 := 0; s0 <= 3; s0 += 2 {
		for s1 := 1; s1 <= 3; s1++ {
			for s3 := 0; s3 <= 3; s3 += 3 {
				targets := c08Supply([4]int{s0, s1, 2, s3})
				for _, o := range []udOpts{{SizeTotal: 5}, {SizeUp: 2, SizeSide: 1, NoFill: true}, {DistAll: 2}, {DistPush: 1},
					{DistUp: 1, DistDown: 2, DistSide: 3}, {SizeSame: 1, SizeUp: 1, SizeDown: 2, SizeSide: 3}, {DistAll: 3, ThreshPair: 0.5, ThreshTarget: 1}, {SizeTotal: 6, Ignore: []string{"up0", "side1"}},
					{SizeTotal: 8, NoFill: true}, {SizeTotal: 4, NoFill: true}, {DistAll: 1, DistDown: 3}, {DistAll: 2, DistUp: 1, DistSide: 3}} {
					k++
					if o.ThreshPair == 0 {
						o.ThreshPair, o.ThreshTarget = 0.1, 10000
					}
					c := c08Case{Ref: "AAAAAAAA", Queries: q, Targets: targets, Opts: o, Table: k%2 == 0}
					call := c.call()
					ob, _ := call.CLI(nil, 0)
					oc := call.Canon()
					res.Evals++
					res.Validated++
					if ob.String() != oc.String() {
						res.Violate("topranking:binary-differs", fmt.Sprintf("real binary and instrumented build disagree: %s vs %s", ob.String(), oc.String()), c)
					}
				}
			}
		}
	}
}

func init() {
	layers := map[string]func(string, int, int, *engine.JobResult){"A": c08LayerA, "B": c08LayerB, "C": c08LayerC}
	register(&Prop{
		ID:    "C08",
		Level: "model_checking",
		Rule: "bounded-exhaustive enumeration against a transcription of the statement. A (classification): reference AAAA, every query x every target over {A,C,G,N}^4 (65 536 pairs, 16 queries x 256 targets per call) with --dist-all large, pair thresholds {0,1/4,1/2,1} x target thresholds {0,1,2,10000}, --ignore: bin and distance of every reported pair, and every pair passing the thresholds reported; " +
			"B (size arithmetic): every supply vector (s_same..s_side) in {0..3}^4 x every requested size vector in {0..2}^4 (thorough {0..3}^4) and --size-total 1..8 x --no-fill; C (ranking): every file of 1..4 candidates over distance {1,2,3} x ambiguity {0,1} in every file order, in the up, down and side bin, x size {1,2,3} x distance limit {none,1,2}, plus --dist-push 1,2 (D), --dist-all, --size-total +-no-fill, and 13..30 tied candidates; list and --table output alternately. " +
			"A case is one (query, target file, option set); non-trivial = at least one neighbour expected; each generated once",
		Assumptions: []string{
			"oracle in harness/ref_updown.go: thresholds, bin by private A/C/G/T differences, distance = columns where both are A/C/G/T and differ, per-bin prefix by (distance, fewer ambiguities, file order), --size-total split as floor(total/4) for up/down/side and the rest for same, round-robin fill one at a time over same,up,down,side from bins with spare candidates, --dist-push k = all targets at the k smallest occurring distances",
			"the order inside the `same` bin under --dist-push is not specified by the statement and is compared as a multiset",
		},
		Bounds: func(tier string) map[string]interface{} {
			return map[string]interface{}{"classification_alphabet": "ACGN", "classification_width": 4, "supplies": "0..3 per bin", "requested_sizes": map[string]string{"quick": "0..2", "thorough": "0..3"}[tier]}
		},
		Plan: func(tier string) ([]string, *engine.JobResult) {
			var jobs []string
			n := map[string]int{"A": 32, "B": 32, "C": 32}
			for _, l := range []string{"B", "A", "C"} {
				for s := 0; s < n[l]; s++ {
					jobs = append(jobs, fmt.Sprintf("%s:%d/%d", l, s, n[l]))
				}
			}
			jobs = append(jobs, "cli")
			return jobs, nil
		},
		Exec: func(tier, job string) *engine.JobResult {
			res := &engine.JobResult{}
			defer func() { res.Transitions = res.States }()
			if strings.HasPrefix(job, "case:") {
				var c c08Case
				mustJSON(job[5:], &c)
				c08Check(c, res, false)
				return res
			}
			if job == "cli" {
				c08CLI(res)
				return res
			}
			p := strings.SplitN(job, ":", 2)
			var s, n int
			fmt.Sscanf(p[1], "%d/%d", &s, &n)
			layers[p[0]](tier, s, n, res)
			return res
		},
	})
}
