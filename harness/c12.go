package main

// C12 — output is a deterministic function of the input, not of threads or scheduling.
// Engine S: every interleaving / map iteration order (within the bounds) of every pipeline must give
// the one observation of the canonical schedule.

import (
	"encoding/json"
	"fmt"
	"os"
	"os/exec"
	"path/filepath"
	"strings"

	"harness/engine"
)

const g12 = "ATGAAATAACCC" // CDS 1..9 = M K *

func fastaOf(recs ...string) string {
	var sb strings.Builder
	for i := 0; i+1 < len(recs); i += 2 {
		sb.WriteString(">" + recs[i] + "\n" + recs[i+1] + "\n")
	}
	return sb.String()
}

// c12Scenarios builds the closed systems. n = records per input (2 or 3), t = workers / NumCPU.
func c12Scenarios(n, t int) []Scenario { return c12ScenariosX(n, t, false) }

func c12ScenariosX(n, t int, extra bool) []Scenario {
	var sc []Scenario
	add := func(name, fam string, c Call) {
		if c.Threads == 0 {
			c.Threads = t
		}
		c.NCPU = t
		sc = append(sc, Scenario{Name: fmt.Sprintf("%s/n%d/t%d", name, n, t), Family: fam, Call: c})
	}
	// --- SAM inputs: n single-record queries whose rows all differ
	qseq := []string{"CTGAAATAACCC", "GTGCAATAACCC", "ATGAAATAACCA", "ATGAAGTAACTC"} // two alleles at position 1, so aggregate keys tie on (position, type)
	sam := samHeader(12)
	for i := 0; i < n; i++ {
		sam += samRec(fmt.Sprintf("q%d", i), 0, 1, "12M", qseq[i])
	}
	// a query with an insertion and a deletion so pair rows differ in length too
	samIndel := samHeader(12) + samRec("q0", 0, 1, "3M2I9M", "ATGGGAAATAACCC") + samRec("q1", 0, 1, "4M3D5M", "ATGATAACC")
	for i := 2; i < n; i++ {
		samIndel += samRec(fmt.Sprintf("q%d", i), 0, 1, "12M", qseq[i])
	}
	ref := fastaOf("ref", g12)
	gb := renderGenbank(g12, []Feat{{Name: "orfA", Segs: []Seg{{1, 9}}}})
	// two GenBank CDS sharing their start (as ORF1a / ORF1ab do): equal (position,type,allele) keys under --aggregate
	gb2 := renderGenbank(g12, []Feat{{Name: "orfA", Segs: []Seg{{1, 9}}}, {Name: "orfB", Segs: []Seg{{1, 6}, {7, 9}}}})
	// GFF: a CDS and a mature peptide starting at the same base (ties in the sort by start)
	gff := renderGFF(g12, []Feat{{Name: "orfA", Segs: []Seg{{1, 9}}}, {Name: "nspB", Segs: []Seg{{1, 6}}, GffType: "mature_protein_region_of_CDS"}, {Name: "nspC", Segs: []Seg{{4, 9}}, GffType: "mature_protein_region_of_CDS"}}, true, true)
	gff2 := renderGFF(g12, []Feat{{Name: "orfA", Segs: []Seg{{1, 9}}}, {Name: "nspB", Segs: []Seg{{1, 6}}, GffType: "mature_protein_region_of_CDS"}}, true, true)
	gff1 := renderGFF(g12, []Feat{{Name: "orfA", Segs: []Seg{{1, 9}}}}, true, true)

	msa := []string{"ref", g12}
	for i := 0; i < n; i++ {
		msa = append(msa, fmt.Sprintf("q%d", i), qseq[i])
	}
	msaS := fastaOf(msa...)
	qonly := fastaOf(msa[2:]...)

	add("toma", "toma", Call{Cmd: "toma", Sam: sam})
	add("toma-wrap", "toma", Call{Cmd: "toma", Sam: sam, Wrap: 5})
	add("topa-stdout", "topa-stdout", Call{Cmd: "topa", Sam: samIndel, Ref: ref})
	add("topa-dir", "topa-dir", Call{Cmd: "topa", Sam: samIndel, Ref: ref, PairDir: true})
	add("topa-stdout-window", "topa-stdout", Call{Cmd: "topa", Sam: sam, Ref: ref, Start: 2, End: 8, OmitRef: true})
	add("samvariants-gb", "samvariants", Call{Cmd: "samvariants", Sam: samIndel, Ref: ref, Anno: gb, AnnoSuffix: "gb"})
	// consecutive queries whose insertions have the same total length at different sites (per-worker state
	// that is only refreshed when a width changes shows as a dependence on which worker gets which query)
	samIns := samHeader(12) + samRec("q0", 0, 1, "3M2I9M", "ATGGGAAATAACCC") + samRec("q1", 0, 1, "6M2I6M", "ATGAAAGGTAACCC")
	if n > 2 {
		samIns += samRec("q2", 0, 1, "9M2I3M", "CTGAAATAAGGCCC")
	}
	if n > 3 {
		samIns += samRec("q3", 0, 1, "12M", "ATGAAATAACCA")
	}
	add("samvariants-ins-sites", "samvariants", Call{Cmd: "samvariants", Sam: samIns, Ref: ref, Anno: gb, AnnoSuffix: "gb"})
	add("samvariants-gff", "samvariants-gff", Call{Cmd: "samvariants", Sam: sam, Ref: ref, Anno: gff, AnnoSuffix: "gff"})
	add("samvariants-agg", "samvariants-agg", Call{Cmd: "samvariants", Sam: sam, Ref: ref, Anno: gb2, AnnoSuffix: "gb", Aggregate: true})
	add("variants-gb", "variants", Call{Cmd: "variants", Msa: msaS, RefID: "ref", Anno: gb, AnnoSuffix: "gb"})
	add("variants-gff-samestart", "variants-gff", Call{Cmd: "variants", Msa: msaS, RefID: "ref", Anno: gff, AnnoSuffix: "gff", AppendSNP: true})
	add("variants-gff-annoref", "variants-gff", Call{Cmd: "variants", Msa: qonly, Anno: gff1, AnnoSuffix: "gff"})
	add("variants-agg-gb", "variants-agg", Call{Cmd: "variants", Msa: msaS, RefID: "ref", Anno: gb2, AnnoSuffix: "gb", Aggregate: true})
	add("variants-agg-gff", "variants-agg", Call{Cmd: "variants", Msa: msaS, RefID: "ref", Anno: gff2, AnnoSuffix: "gff", Aggregate: true})
	add("variants-stdin", "variants", Call{Cmd: "variants", Msa: msaS, RefID: "ref", Stdin: true, Anno: gb, AnnoSuffix: "gb"})
	add("snps", "snps", Call{Cmd: "snps", Ref: ref, Msa: qonly})
	add("snps-agg", "snps-agg", Call{Cmd: "snps", Ref: ref, Msa: qonly, Aggregate: true})
	add("list", "list", Call{Cmd: "list", Ref: ref, Msa: qonly})

	// closest / topranking: width-4 alignments with ties on distance and completeness
	tq := fastaOf("qa", "AAAA", "qb", "AACA")
	tt := []string{"t0", "AAAC", "t1", "AAAG", "t2", "AACA"}
	if n > 2 {
		tt = append(tt, "t3", "AAAN")
	}
	if n > 3 {
		tt = append(tt, "t4", "AAAC")
	}
	tts := fastaOf(tt...)
	add("closest", "closest", Call{Cmd: "closest", Query: tq, Target: tts, Measure: "raw"})
	add("closestn", "closestn", Call{Cmd: "closest", Query: tq, Target: tts, Measure: "snp", N: 2})
	add("closestn-table", "closestn", Call{Cmd: "closest", Query: tq, Target: tts, Measure: "raw", N: 2, Table: true, HasDist: true, MaxDist: 1})
	uref := fastaOf("r", "AAAA")
	uq := fastaOf("qa", "AACA", "qb", "ACAA")
	ut := fastaOf("t0", "AAAA", "t1", "AACC", "t2", "ACCA")
	add("topranking-ff", "topranking", Call{Cmd: "topranking", Query: uq, Target: ut, Ref: uref, QType: "fasta", TType: "fasta", SizeTotal: 3})
	if n == 2 && t == 2 {
		// 14 ancestors of the query at two distances, all tied on ambiguity: more than an insertion sort's worth
		// of equal keys, fed from a map keyed by distance (--dist-push)
		bq := fastaOf("q", "CCCAAAAA")
		var bt []string
		d1 := []string{"CCAAAAAA", "CACAAAAA", "ACCAAAAA"}
		d2 := []string{"CAAAAAAA", "ACAAAAAA", "AACAAAAA"}
		for i := 0; i < 14; i++ {
			if i%2 == 0 {
				bt = append(bt, fmt.Sprintf("t%02d", i), d2[(i/2)%3])
			} else {
				bt = append(bt, fmt.Sprintf("t%02d", i), d1[(i/2)%3])
			}
		}
		add("topranking-push14", "topranking-push", Call{Cmd: "topranking", Query: bq, Target: fastaOf(bt...), Ref: fastaOf("r", "AAAAAAAA"), QType: "fasta", TType: "fasta", DistPush: 2, NCPU: 1})
	}
	// option variants of the cheap pipelines (quick and thorough), of the costly ones (thorough only)
	add("toma-pad-window", "toma", Call{Cmd: "toma", Sam: sam, Pad: true, Start: 2, End: 9, Wrap: 4})
	add("snps-hardgaps", "snps", Call{Cmd: "snps", Ref: ref, Msa: qonly, HardGaps: true})
	add("closest-tn93", "closest", Call{Cmd: "closest", Query: fastaOf("qa", "ACGTACGTAAAA", "qb", "ACGTACGTAACA"), Target: fastaOf("t0", "ACGTACGTAAAC", "t1", "ACGTACGTAAGA", "t2", "ACGTACGTAAAA"), Measure: "tn93"})
	add("closestn-dist-only", "closestn", Call{Cmd: "closest", Query: tq, Target: tts, Measure: "snp", HasDist: true, MaxDist: 1})
	if extra {
		add("topa-dir-wrap-skipins", "topa-dir", Call{Cmd: "topa", Sam: samIndel, Ref: ref, PairDir: true, Wrap: 5, OmitIns: true})
		add("samvariants-annoref-append", "samvariants", Call{Cmd: "samvariants", Sam: samIndel, NoRefFile: true, Anno: gb, AnnoSuffix: "gb", AppendSNP: true})
		add("variants-agg-gff-window", "variants-agg", Call{Cmd: "variants", Msa: msaS, RefID: "ref", Anno: gff2, AnnoSuffix: "gff", Aggregate: true, Threshold: 0.5, Start: 1, End: 6})
		add("topranking-ff-dist", "topranking", Call{Cmd: "topranking", Query: uq, Target: ut, Ref: uref, QType: "fasta", TType: "fasta", DistAll: 2, Table: true})
	}
	add("topranking-ff-table", "topranking", Call{Cmd: "topranking", Query: uq, Target: ut, Ref: uref, QType: "fasta", TType: "fasta", DistPush: 1, Table: true})
	return sc
}

// toprankingCSVScenarios need the CSV form, produced by the real `updown list` at plan time.
func c12CSVScenarios(t int) []Scenario {
	uref := fastaOf("r", "AAAA")
	uq := fastaOf("qa", "AACA", "qb", "ACAA")
	ut := fastaOf("t0", "AAAA", "t1", "AACC", "t2", "ACCA")
	toCSV := func(msa string) string {
		c := Call{Cmd: "list", Ref: uref, Msa: msa, NCPU: 1}
		o := c.Canon()
		if o.Outcome != "returned" || o.HasErr {
			engine.EngineError("updown list failed while preparing CSV input: %v", o)
		}
		return o.Out
	}
	c := Call{Cmd: "topranking", Query: toCSV(uq), Target: toCSV(ut), QType: "csv", TType: "csv", SizeTotal: 3, Threads: t, NCPU: t}
	return []Scenario{{Name: fmt.Sprintf("topranking-cc/t%d", t), Family: "topranking-csv", Call: c}}
}

var c12Canon = map[string]string{}

func c12Judge(sc *Scenario, st *engine.Stats, res *engine.JobResult) {
	canon, ok := c12Canon[sc.Name]
	if !ok {
		_, canon = sc.execFn()(nil)
		c12Canon[sc.Name] = canon
	}
	for obs, n := range st.Outcomes {
		if strings.Contains(obs, lateWrite) {
			res.Violate(sc.Family+":write-after-return", fmt.Sprintf("scenario %s: %d execution(s): %.400s", sc.Name, n, obs), schedCase{Scenario: *sc, Trace: st.FirstTrace[obs], Obs: obs})
			continue
		}
		if obs == canon {
			continue
		}
		kind := "output-differs"
		switch {
		case strings.HasPrefix(obs, "panic"):
			kind = "panic"
		case strings.HasPrefix(obs, "deadlock"):
			kind = "deadlock"
		case strings.SplitN(obs, "|", 3)[1] != strings.SplitN(canon, "|", 3)[1]:
			kind = "error-differs"
		}
		res.Violate(sc.Family+":"+kind,
			fmt.Sprintf("scenario %s: %d execution(s) observed %s but the canonical schedule gives %s", sc.Name, n, obs, canon),
			schedCase{Scenario: *sc, Trace: st.FirstTrace[obs], Suspend: suspendOf(obs), Obs: obs, Expect: canon})
	}
	if strings.HasPrefix(canon, "panic") || strings.HasPrefix(canon, "deadlock") {
		res.Violate(sc.Family+":canonical-"+strings.SplitN(canon, "|", 2)[0], fmt.Sprintf("scenario %s: canonical schedule ends in %s", sc.Name, canon), schedCase{Scenario: *sc, Obs: canon})
	}
}

// families whose complete (unbounded, happens-before-pruned) interleaving space at 2 records x 2
// workers is small enough for the quick tier
var c12SmallFamilies = map[string]bool{"toma": true, "topa-stdout": true, "topa-dir": true, "samvariants": true, "snps": true, "snps-agg": true,
	"list": true, "closest": true, "closestn": true, "topranking": true, "topranking-csv": true}

// c12BigScenarios: inputs with more records than the pipelines' channel buffers hold (50+threads,
// NumCPU+50), so that stages really block on full buffers. Long executions: delay-bounded.
func c12BigScenarios() []Scenario {
	const n = 70 // more than the 50+threads channel buffers, and more than a power-of-two-sized ring would hold
	var sc []Scenario
	add := func(name, fam string, c Call) {
		c.Threads, c.NCPU = 2, 2
		sc = append(sc, Scenario{Name: fmt.Sprintf("%s/n%d/t2", name, n), Family: fam, Call: c, Mode: "D1M1"})
	}
	msa := []string{"ref", g12}
	sam := samHeader(12)
	for i := 0; i < n; i++ {
		q := []byte(g12)
		q[i%12] = "ACGT"[(i/12+1+strings.IndexByte("ACGT", g12[i%12]))%4]
		msa = append(msa, fmt.Sprintf("q%02d", i), string(q))
		sam += samRec(fmt.Sprintf("q%02d", i), 0, 1, "12M", string(q))
	}
	gb := renderGenbank(g12, []Feat{{Name: "orfA", Segs: []Seg{{1, 9}}}})
	add("variants-gb-big", "variants", Call{Cmd: "variants", Msa: fastaOf(msa...), RefID: "ref", Anno: gb, AnnoSuffix: "gb"})
	add("variants-stdin-big", "variants", Call{Cmd: "variants", Msa: fastaOf(msa...), RefID: "ref", Stdin: true, Anno: gb, AnnoSuffix: "gb"})
	add("list-big", "list", Call{Cmd: "list", Ref: fastaOf("ref", g12), Msa: fastaOf(msa[2:]...)})
	add("snps-big", "snps", Call{Cmd: "snps", Ref: fastaOf("ref", g12), Msa: fastaOf(msa[2:]...)})
	add("toma-big", "toma", Call{Cmd: "toma", Sam: sam})
	return sc
}

// c12WriteVisible: the 2-record scenarios again with every Write to the output as a scheduling point.
func c12WriteVisible(mode string) []Scenario {
	var out []Scenario
	for _, s := range c12Scenarios(2, 2) {
		if s.Call.Cmd == "topa" || s.Family == "topranking-push" {
			continue // topa writes to os.Stdout / files, not to the writer the harness passes in; push14 is delay-bounded only
		}
		s.Name += "/writes-visible"
		s.WriteVisible = true
		s.Mode = mode
		out = append(out, s)
	}
	return out
}

func c12All(tier string) []Scenario {
	var sc []Scenario
	with := func(ss []Scenario, mode func(s *Scenario) string) {
		for i := range ss {
			ss[i].Mode = mode(&ss[i])
		}
		sc = append(sc, ss...)
	}
	if tier == "quick" {
		with(c12Scenarios(2, 2), func(s *Scenario) string {
			if s.Family == "topranking-push" {
				return "D1M2"
			}
			if c12SmallFamilies[s.Family] {
				return "U"
			}
			return "P2M2"
		})
		with(c12Scenarios(2, 1), func(s *Scenario) string { return "U" })
		with(c12CSVScenarios(2), func(s *Scenario) string { return "U" })
		sc = append(sc, c12WriteVisible("P1M1")...)
		sc = append(sc, c12BigScenarios()...)
		// four records: enough for two records to overtake a third (delay-bounded: a delayed goroutine
		// stays delayed for as long as the others can run)
		with(c12Scenarios(4, 2), func(s *Scenario) string { return "D2M1" })
		return sc
	}
	with(c12ScenariosX(2, 2, true), func(s *Scenario) string {
		if s.Family == "topranking-push" {
			return "D2M2"
		}
		return "U"
	})
	with(c12Scenarios(2, 1), func(s *Scenario) string { return "U" })
	with(c12CSVScenarios(2), func(s *Scenario) string { return "U" })
	sc = append(sc, c12WriteVisible("P2M1")...)
	with(c12BigScenarios(), func(s *Scenario) string { return "D2M1" })
	with(c12Scenarios(4, 2), func(s *Scenario) string { return "D3M1" })
	// three records, and three workers: still every interleaving for the pipelines whose spaces stay small,
	// at most two preemptions for the others
	cheapU := func(s *Scenario) string {
		switch s.Call.Cmd {
		case "toma", "snps", "list", "closest":
			return "U"
		}
		if strings.Contains(s.Name, "annoref") || strings.Contains(s.Name, "stdin") {
			return "U"
		}
		return "P2M2" // (measured: the unbounded spaces of these pipelines at 3 records or 3 workers take hours)
	}
	with(c12Scenarios(3, 2), cheapU)
	with(c12Scenarios(2, 3), cheapU)
	with(c12Scenarios(3, 3), func(s *Scenario) string { return "D3M2" })
	return sc
}

func init() {
	var scens []Scenario
	get := func(tier string) []Scenario {
		if scens == nil {
			scens = c12All(tier)
		}
		return scens
	}
	register(&Prop{
		ID:    "C12",
		Level: "model_checking",
		Rule:  "stateless DFS by replay over the controlled scheduler. Per scenario (see bounds.mode_per_scenario) either mode U: EVERY interleaving and every map iteration order (all permutations of maps of <=5 keys; larger maps: sorted, reversed, rotations, adjacent swaps), pruned only by happens-before equivalence of prefixes; or PxMy: every execution with at most x preemptions and y non-sorted map orders; or DxMy: at most x non-default scheduling choices of any kind. Every execution must produce the observation (outcome, error, output bytes) of the canonical schedule, which must equal the real binary's for --threads 1,2,3,4,8,16 x GOMAXPROCS 1,4,16. An execution is non-trivial when it deviates from the canonical schedule at >=1 point; states = distinct happens-before state keys, transitions = choices executed beyond replayed prefixes",
		Assumptions: []string{
			"code between two synchronisation points is goroutine-local (no unsynchronised shared access): checked separately by the free-running -race pass, not by the scheduler",
			"github.com/biogo/hts/sam and the standard library are not instrumented; they start no goroutines on these paths",
			"deprecated `sam indels` out of scope",
		},
		Bounds: func(tier string) map[string]interface{} {
			modes := map[string]string{}
			for _, s := range get(tier) {
				modes[s.Name] = s.Mode
			}
			return map[string]interface{}{"mode_per_scenario (U = all interleavings and map orders, pruned only by happens-before equivalence; PxMy = at most x preemptions and y non-sorted map orders; DxMy = at most x non-default scheduling choices of any kind and y non-sorted map orders)": modes,
				"records": "2 (all interleavings), 4 (delay-bounded), 70 (delay-bounded); thorough also 3 (all interleavings with 2 workers, delay-bounded with 3)", "workers_and_NumCPU": map[string][]int{"quick": {1, 2}, "thorough": {1, 2, 3}}[tier], "scenarios": len(get(tier))}
		},
		Plan: func(tier string) ([]string, *engine.JobResult) {
			depth := 1
			if tier == "thorough" {
				depth = 2
			}
			jobs, pre := planSched(get(tier), depth, c12Judge)
			for i := range get(tier) {
				if i < 3 {
					pre.Sample(map[string]interface{}{"scenario": get(tier)[i].Name, "call": get(tier)[i].Call})
				}
			}
			return jobs, pre
		},
		Exec: func(tier, job string) *engine.JobResult {
			if strings.HasPrefix(job, "case:") {
				var c schedCase
				if err := json.Unmarshal([]byte(job[5:]), &c); err != nil {
					engine.EngineError("bad case: %v", err)
				}
				res := &engine.JobResult{Evals: 2}
				fn := c.Scenario.execFn()
				_, canon := fn(nil)
				obs := replayCase(&c)
				if obs != canon {
					res.Violate(c.Scenario.Family+":replayed", fmt.Sprintf("trace %v gives %s; canonical schedule gives %s", c.Trace, obs, canon), c)
				}
				return res
			}
			return execSched(get(tier), job, c12Judge)
		},
		Pre: func(tier string, total *engine.JobResult) { c12RacePass(total) },
		Post: func(tier string, total *engine.JobResult) {
			// number of executions that deviate from the canonical schedule
			total.Nontrivial = total.Evals - len(get(tier))
			// binding: the schedule-independent observation must equal what the real binary prints
			// for every --threads value
			for i := range get(tier) {
				sc := &get(tier)[i]
				if sc.Call.NCPU != 2 || !strings.Contains(sc.Name, "/n2/") && !strings.Contains(sc.Name, "-cc/") {
					continue
				}
				_, canon := sc.execFn()(nil)
				// the documented defaults: output to stdout, main input from stdin
				for _, viaStdin := range []bool{false, true} {
					o := sc.Call.CLIStdout(2, viaStdin)
					total.Validated++
					if got := o.String(); got != canon && o.Outcome != "timeout" {
						total.Violate(sc.Family+":binary-stdio-differs", fmt.Sprintf("scenario %s: real binary writing to stdout (input from stdin: %v) gives %s; explored executions give %s", sc.Name, viaStdin, got, canon), schedCase{Scenario: *sc, Obs: got, Expect: canon})
					}
				}
				for _, th := range []int{1, 2, 3, 4, 8, 16} {
					for _, gmp := range []string{"1", "4", "16"} {
						o, _ := sc.Call.CLI([]string{"GOMAXPROCS=" + gmp}, th)
						total.Validated++
						if got := o.String(); got != canon {
							if o.Outcome == "timeout" {
								total.Notes = append(total.Notes, "binary timed out on "+sc.Name)
								continue
							}
							total.Violate(sc.Family+":binary-differs", fmt.Sprintf("scenario %s: real binary with --threads %d GOMAXPROCS=%s gives %s; explored executions give %s", sc.Name, th, gmp, got, canon), schedCase{Scenario: *sc, Obs: got, Expect: canon})
						}
					}
				}
			}
		},
	})
}

// c12RacePass runs the scenario bodies free-running under the Go race detector (threads 1..16,
// several GOMAXPROCS). A report is a violation; silence is an assumption of the scheduler runs.
func c12RacePass(total *engine.JobResult) {
	racePass("C12", total, []string{"1", "2", "4", "16"}, nil)
	// and every scenario family once in a cold process (first use of anything lazily initialised)
	seen := map[string]bool{}
	var cold []string
	for _, sc := range c12All("quick") {
		if !seen[sc.Family] && sc.Call.NCPU >= 2 {
			seen[sc.Family] = true
			cold = append(cold, sc.Name)
		}
	}
	racePass("C12", total, []string{"4"}, cold)
}

// racePass runs `vcheck_race racepass <id> [scenario]` once per GOMAXPROCS value (and, if cold is given,
// once per listed scenario name, each in its own process).
func racePass(id string, total *engine.JobResult, gmps []string, cold []string) {
	bin := filepath.Join(os.Getenv("VERIF_BUILD"), "vcheck_race")
	if _, err := os.Stat(bin); err != nil {
		total.Notes = append(total.Notes, "race pass skipped: no -race harness build")
		return
	}
	runs := 0
	names := cold
	if names == nil {
		names = []string{""}
	}
	for _, gmp := range gmps {
		for _, name := range names {
			cmd := exec.Command(bin, "racepass", id, name)
			logp := filepath.Join(engine.Scratch(), "race_report_"+gmp)
			cmd.Env = append(os.Environ(), "GOMAXPROCS="+gmp, "GORACE=exitcode=66 halt_on_error=1 log_path="+logp)
			out, err := cmd.CombinedOutput()
			if err != nil {
				rep := string(out)
				if fs, _ := filepath.Glob(logp + "*"); len(fs) > 0 {
					b, _ := os.ReadFile(fs[0])
					rep = string(b)
					for _, f := range fs {
						os.Remove(f)
					}
				}
				ee, isExit := err.(*exec.ExitError)
				if strings.Contains(rep, "DATA RACE") || (isExit && ee.ExitCode() == 66) {
					if i := strings.Index(rep, "WARNING: DATA RACE"); i >= 0 {
						rep = rep[i:]
					}
					if len(rep) > 3000 {
						rep = rep[:3000]
					}
					total.Violate("data-race", "the Go race detector reported a race in a free-running run (GOMAXPROCS="+gmp+" "+name+"): "+rep, map[string]string{"gomaxprocs": gmp, "scenario": name, "report": rep})
					return
				}
				if strings.Contains(rep, "fatal error: concurrent map") {
					total.Violate("data-race", "the Go runtime aborted a free-running run (GOMAXPROCS="+gmp+" "+name+"): "+firstLines(rep, 12), map[string]string{"gomaxprocs": gmp, "scenario": name, "report": firstLines(rep, 40)})
					return
				}
				engine.EngineError("race pass failed: %v: %.500s", err, out)
			}
			var n int
			if i := strings.Index(string(out), "racepass runs="); i >= 0 {
				fmt.Sscanf(string(out)[i:], "racepass runs=%d", &n)
			}
			runs += n
		}
	}
	total.Count("race_pass_free_running_runs", runs)
}

func firstLines(s string, n int) string {
	ls := strings.Split(s, "\n")
	if len(ls) > n {
		ls = ls[:n]
	}
	return strings.Join(ls, "\n")
}
