package main

// C03 — snps reports exactly the certainly-different sites, in reference order.

import (
	"fmt"
	"strings"

	"harness/engine"
)

type c03Case struct {
	Ref     string   `json:"ref"`
	Queries []string `json:"queries"`
	Hard    bool     `json:"hardgaps"`
}

// c03Expect is the reference model: one row per query, listing the columns with disjoint base sets.
func c03Expect(ref string, q string, hard bool) string {
	var parts []string
	for i := 0; i < len(ref); i++ {
		m1, _ := maskOf(ref[i], hard)
		m2, _ := maskOf(q[i], hard)
		if m1&m2 == 0 {
			parts = append(parts, fmt.Sprintf("%c%d%c", upper(ref[i]), i+1, upper(q[i])))
		}
	}
	return strings.Join(parts, "|")
}

func c03Run(c c03Case) (Obs, []string) {
	recs := []string{}
	for i, q := range c.Queries {
		recs = append(recs, fmt.Sprintf("q%d", i), q)
	}
	call := Call{Cmd: "snps", Ref: fastaOf("ref", c.Ref), Msa: fastaOf(recs...), HardGaps: c.Hard, NCPU: 2}
	o := call.Canon()
	var rows []string
	if o.Outcome == "returned" && !o.HasErr {
		rows = strings.Split(strings.TrimSuffix(o.Out, "\n"), "\n")
	}
	return o, rows
}

// c03Check runs one batch and attributes failures to single rows.
func c03Check(c c03Case, res *engine.JobResult, attribute bool) {
	o, rows := c03Run(c)
	res.Evals += len(c.Queries)
	if o.Outcome != "returned" || o.HasErr {
		if attribute && len(c.Queries) > 1 {
			for _, q := range c.Queries {
				c03Check(c03Case{c.Ref, []string{q}, c.Hard}, res, false)
			}
			return
		}
		res.Violate("snps:"+o.Outcome+"-on-valid-input", "valid alignment not processed: "+o.String()+" "+o.Detail, c)
		return
	}
	if len(rows) != len(c.Queries)+1 || rows[0] != "query,SNPs" {
		res.Violate("snps:rows", fmt.Sprintf("expected header + %d rows, got %q", len(c.Queries), o.Out), c)
		return
	}
	for i, q := range c.Queries {
		want := fmt.Sprintf("q%d,%s", i, c03Expect(c.Ref, q, c.Hard))
		if rows[i+1] == want {
			continue
		}
		if attribute && len(c.Queries) > 1 {
			c03Check(c03Case{c.Ref, []string{q}, c.Hard}, res, false)
			// the row may only be wrong in context (order, neighbours): report the batch then
			res.Violate("snps:row-in-context", fmt.Sprintf("row %d of a %d-row alignment: got %q want %q", i, len(c.Queries), rows[i+1], want), c)
			continue
		}
		got := strings.TrimPrefix(rows[i+1], fmt.Sprintf("q%d,", i))
		cause := "snps:wrong-row"
		w := c03Expect(c.Ref, q, c.Hard)
		switch {
		case len(got) < len(w) && strings.Contains(w, got):
			cause = "snps:missing-snp"
		case len(got) > len(w) && strings.Contains(got, w):
			cause = "snps:spurious-snp"
		}
		res.Violate(cause, fmt.Sprintf("ref %q query %q hardgaps=%v: got %q want %q", c.Ref, q, c.Hard, rows[i+1], want), c03Case{c.Ref, []string{q}, c.Hard})
	}
}

func init() {
	register(&Prop{
		ID:    "C03",
		Level: "model_checking",
		Rule:  "bounded-exhaustive enumeration against a set-disjointness reference model: every ordered pair of width-2 alignments over the 17-symbol alphabet (289 references x 289 queries) x {soft,hard} gaps x 4 letter-case layouts; a single differing column at every position of widths 1..12,99..101 (multi-digit positions); every sequence of 1..4 records from a 4-row menu (order/duplicates); thorough adds every ordered pair of width-3 alignments over the full alphabet (4913 x 4913 x {soft,hard}). A case is one (reference, query row, gap mode); non-trivial = expected row lists at least one SNP; each case generated once",
		Assumptions: []string{
			"oracle: IUPAC base sets as bit masks in harness/ref_iupac.go; under --hard-gaps '-' is the empty set and empty/empty counts as disjoint",
			"each call runs on the canonical schedule of the controlled scheduler with NumCPU=2 (schedule independence is C12's subject)",
		},
		Bounds: func(tier string) map[string]interface{} {
			return map[string]interface{}{"alphabet": alphabet17, "width2_contexts": 289 * 289, "width3_alphabet": map[string]string{"quick": "-", "thorough": alphabet17}[tier], "max_width": 101, "max_records": 4}
		},
		Plan: func(tier string) ([]string, *engine.JobResult) {
			var jobs []string
			for r := 0; r < 289; r += 17 {
				jobs = append(jobs, fmt.Sprintf("w2:%d", r))
			}
			jobs = append(jobs, "pos", "order", "cli")
			if tier == "thorough" {
				for r := 0; r < 17*17*17; r += 64 {
					jobs = append(jobs, fmt.Sprintf("w3:%d", r))
				}
			}
			return jobs, nil
		},
		Exec: func(tier, job string) *engine.JobResult {
			res := &engine.JobResult{}
			defer func() { res.Transitions = res.States }()
			if strings.HasPrefix(job, "case:") {
				var c c03Case
				mustJSON(job[5:], &c)
				c03Check(c, res, false)
				return res
			}
			A := alphabet17
			switch {
			case strings.HasPrefix(job, "w2:"):
				var r0 int
				fmt.Sscanf(job, "w2:%d", &r0)
				var queries []string
				for i := 0; i < 17; i++ {
					for j := 0; j < 17; j++ {
						queries = append(queries, string([]byte{A[i], A[j]}))
					}
				}
				for r := r0; r < r0+17 && r < 289; r++ {
					ref := queries[r]
					for _, hard := range []bool{false, true} {
						for cm := 0; cm < 4; cm++ {
							qs := make([]string, len(queries))
							for i, q := range queries {
								qs[i] = q
								if cm&1 == 1 {
									qs[i] = strings.ToLower(q)
								}
							}
							rr := ref
							if cm&2 == 2 {
								rr = strings.ToLower(ref)
							}
							c := c03Case{rr, qs, hard}
							c03Check(c, res, true)
							for _, q := range qs {
								if c03Expect(rr, q, hard) != "" {
									res.Nontrivial++
								}
							}
							res.States += len(qs) + 1
							if r == 40 && cm == 1 && hard {
								res.Sample(c03Case{rr, qs[:5], hard})
							}
						}
					}
				}
			case strings.HasPrefix(job, "w3:"):
				var r0 int
				fmt.Sscanf(job, "w3:%d", &r0)
				sub := alphabet17
				var all []string
				for _, a := range sub {
					for _, b := range sub {
						for _, c := range sub {
							all = append(all, string([]rune{a, b, c}))
						}
					}
				}
				for r := r0; r < r0+64 && r < len(all); r++ {
					for _, hard := range []bool{false, true} {
						c03Check(c03Case{all[r], all, hard}, res, true)
						for _, q := range all {
							if c03Expect(all[r], q, hard) != "" {
								res.Nontrivial++
							}
						}
						res.States += len(all) + 1
					}
				}
			case job == "pos":
				for _, w := range []int{1, 2, 3, 4, 5, 6, 7, 8, 9, 10, 11, 12, 99, 100, 101} {
					ref := strings.Repeat("ACGT", w/4+1)[:w]
					var qs []string
					for p := 0; p < w; p++ {
						b := []byte(ref)
						b[p] = map[byte]byte{'A': 'C', 'C': 'G', 'G': 'T', 'T': 'A'}[b[p]]
						qs = append(qs, string(b))
					}
					// and two differing columns: first+last
					b := []byte(ref)
					b[0], b[w-1] = 'N', '-'
					qs = append(qs, string(b), ref)
					for _, hard := range []bool{false, true} {
						c03Check(c03Case{ref, qs, hard}, res, true)
						res.Nontrivial += w
						res.States += len(qs) + 1
					}
				}
			case job == "order":
				menu := []string{"ACGT", "CCGT", "ACGA", "NC-T"}
				ref := "ACGT"
				var rec func(cur []string)
				rec = func(cur []string) {
					res.States++
					if len(cur) > 0 {
						c03Check(c03Case{ref, cur, true}, res, false)
						res.Nontrivial++
					}
					if len(cur) == 4 {
						return
					}
					for _, m := range menu {
						rec(append(append([]string{}, cur...), m))
					}
				}
				rec(nil)
			case job == "cli":
				// binding: the same width-2 table through the real binary
				var queries []string
				for i := 0; i < 17; i++ {
					for j := 0; j < 17; j++ {
						queries = append(queries, string([]byte{A[i], A[j]}))
					}
				}
				for r := engine.Seed() % 7; r < 289; r += 7 {
					for _, hard := range []bool{false, true} {
						recs := []string{}
						for i, q := range queries {
							recs = append(recs, fmt.Sprintf("q%d", i), q)
						}
						call := Call{Cmd: "snps", Ref: fastaOf("ref", queries[r]), Msa: fastaOf(recs...), HardGaps: hard}
						o, _ := call.CLI(nil, 0)
						want := "query,SNPs\n"
						for i, q := range queries {
							want += fmt.Sprintf("q%d,%s\n", i, c03Expect(queries[r], q, hard))
						}
						res.Evals += len(queries)
						res.Validated += len(queries)
						if o.Outcome != "returned" || o.HasErr || o.Out != want {
							res.Violate("snps:binary-differs", fmt.Sprintf("real binary on reference %q hardgaps=%v: %s", queries[r], hard, firstDiff(o.Out, want)), c03Case{queries[r], queries, hard})
						}
					}
				}
			}
			return res
		},
	})
}

func firstDiff(got, want string) string {
	g := strings.Split(got, "\n")
	w := strings.Split(want, "\n")
	for i := 0; i < len(g) || i < len(w); i++ {
		var a, b string
		if i < len(g) {
			a = g[i]
		}
		if i < len(w) {
			b = w[i]
		}
		if a != b {
			return fmt.Sprintf("line %d: got %q want %q", i+1, a, b)
		}
	}
	return "identical"
}
