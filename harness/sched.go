package main

// Engine S driver shared by C12 / C18 / C19 / C09: exhaustive exploration of the interleavings,
// map iteration orders and NumCPU answers of one Call, sharded over worker processes.

import (
	"bytes"
	"encoding/json"
	"fmt"
	"io"
	"os"
	"strconv"
	"strings"
	"time"

	"harness/engine"

	"github.com/virus-evolution/gofasta/pkg/zzvs"
)

// Scenario is one closed system: a call plus the family used to classify violations.
type Scenario struct {
	Name   string `json:"name"`
	Family string `json:"family"`
	Call   Call   `json:"call"`
	Mode   string `json:"mode,omitempty"` // exploration mode for this scenario (e.g. "U", "P2M2")
	// fault injection (C19): fail the K-th Write (1-based); Persist: every write from K on.
	FaultK  int  `json:"faultk,omitempty"`
	Persist bool `json:"persist,omitempty"`
	// WriteVisible: every Write to the command's output writer is a scheduling point, and a write still
	// pending when the command has returned without error is reported (output lost at process exit).
	WriteVisible bool `json:"writevisible,omitempty"`
}

type visibleWriter struct{ w io.Writer }

func (v visibleWriter) Write(p []byte) (int, error) {
	zzvs.Object("out", "out.Write")
	return v.w.Write(p)
}

const lateWrite = "LATE-WRITE"

func lateWriteMark(r *zzvs.Result, o Obs) string {
	if r.Outcome != "returned" || o.HasErr {
		return ""
	}
	for _, l := range r.Leftover {
		if strings.HasSuffix(l, "@out.Write") {
			return "|" + lateWrite + ": goroutine " + l + " had not finished writing the output when the command returned"
		}
	}
	return ""
}

type faultWriter struct {
	w       io.Writer
	n       int
	k       int
	persist bool
	fired   bool
}

type injectedErr struct{ k int }

func (e injectedErr) Error() string { return fmt.Sprintf("injected write failure at write %d", e.k) }

func (f *faultWriter) Write(p []byte) (int, error) {
	f.n++
	if f.n == f.k || (f.persist && f.n > f.k) {
		f.fired = true
		return 0, injectedErr{f.n}
	}
	return f.w.Write(p)
}

type countWriter struct {
	w io.Writer
	n int
}

func (c *countWriter) Write(p []byte) (int, error) { c.n++; return c.w.Write(p) }

// starveFamily runs the scenario once per goroutine g of its canonical execution with g (and, in a
// second pass, g and all its descendants) given the lowest priority: g only runs when nothing else is
// enabled. These executions let the other stages race arbitrarily far ahead of one stalled stage —
// the regime in which bounded re-order buffers and full channel buffers matter — at the cost of one
// execution per goroutine. Returns observation -> (count, first trace, starved id).
func (s *Scenario) starveFamily() (map[string]int, map[string][]int, map[string]string, int) {
	counts, traces, who := map[string]int{}, map[string][]int{}, map[string]string{}
	fn := s.execFn()
	r0, _ := fn(nil)
	n := 0
	for _, g := range r0.Goroutines {
		for _, suffix := range []string{"", "*"} {
			if g == "0" {
				continue
			}
			r, obs := s.execStarving(g + suffix)
			n++
			counts[obs]++
			if _, ok := traces[obs]; !ok {
				traces[obs] = append([]int(nil), r.Trace...)
				who[obs] = g + suffix
			}
		}
	}
	return counts, traces, who, n
}

// suspendFamily runs the scenario once per continuation point of its canonical execution (a goroutine
// starting, or going on after a rendezvous) with that continuation suspended for as long as anything
// else can run - in particular while the command returns. What a goroutine does after its last
// synchronisation with the rest (a deferred Flush, a final write) is thereby ordered after the return
// of the command in one explored execution each.
func (s *Scenario) suspendFamily() (map[string]int, map[string][]int, map[string]string, int) {
	counts, traces, who := map[string]int{}, map[string][]int{}, map[string]string{}
	r0, _ := s.execFn()(nil)
	n := 0
	for _, c := range r0.Continuations {
		r, obs := s.execPolicy("", c)
		n++
		counts[obs]++
		if _, ok := traces[obs]; !ok {
			traces[obs] = append([]int(nil), r.Trace...)
			who[obs] = c
		}
	}
	return counts, traces, who, n
}

func (s *Scenario) execStarving(starve string) (*zzvs.Result, string) { return s.execPolicy(starve, "") }

func (s *Scenario) execPolicy(starve, suspend string) (*zzvs.Result, string) {
	var fw *faultWriter
	var wrap func(io.Writer) io.Writer
	if s.FaultK > 0 {
		wrap = func(w io.Writer) io.Writer { fw = &faultWriter{w: w, k: s.FaultK, persist: s.Persist}; return fw }
	}
	if s.WriteVisible && wrap == nil {
		wrap = func(w io.Writer) io.Writer { return visibleWriter{w} }
	}
	var buf bytes.Buffer
	var err error
	var atReturn *string
	c := s.Call
	body := func() {
		c.prior()
		var w io.Writer = &buf
		var f *os.File
		if c.ToFile {
			f = scratchOut()
			w = f
		}
		if wrap != nil {
			w = wrap(w)
		}
		err = c.Run(w)
		if f != nil {
			b, _ := os.ReadFile(f.Name())
			buf.Write(b)
			f.Close()
			os.Remove(f.Name())
		}
		s := buf.String()
		atReturn = &s
	}
	var r *zzvs.Result
	if suspend != "" {
		gid, k := suspend, 0
		if i := strings.LastIndex(suspend, "#"); i > 0 {
			gid = suspend[:i]
			fmt.Sscan(suspend[i+1:], &k)
		}
		r = zzvs.RunSuspending(nil, gid, k, c.ncpu(), body)
	} else {
		r = zzvs.RunStarving(nil, starve, c.ncpu(), body)
	}
	if r.Outcome == "engine-timeout" {
		engine.EngineError("watchdog expired in %s (starving %s suspending %s)", c.Cmd, starve, suspend)
	}
	o := Obs{Outcome: r.Outcome, Out: buf.String()}
	if atReturn != nil {
		o.Out = *atReturn // the output as it is when the command returns
	}
	if r.Outcome == "returned" && err != nil {
		o.HasErr, o.Err = true, err.Error()
	}
	obs := o.String()
	if r.Outcome == "panic" {
		obs += "|" + r.PanicG + ": " + r.PanicV
	}
	if r.Outcome == "deadlock" {
		obs += "|" + strings.Join(r.Blocked, "; ")
	}
	if fw != nil {
		obs = fmt.Sprintf("fired=%v|", fw.fired) + obs
	}
	if s.WriteVisible {
		obs += lateWriteMark(r, o)
	}
	return r, obs
}

// execFn builds the ExecFn of a scenario.
func (s *Scenario) execFn() engine.ExecFn {
	return func(prefix []int) (*zzvs.Result, string) {
		var fw *faultWriter
		var wrap func(io.Writer) io.Writer
		if s.FaultK > 0 {
			wrap = func(w io.Writer) io.Writer { fw = &faultWriter{w: w, k: s.FaultK, persist: s.Persist}; return fw }
		}
		if s.WriteVisible && wrap == nil {
			wrap = func(w io.Writer) io.Writer { return visibleWriter{w} }
		}
		r, o := s.Call.CtlW(prefix, wrap)
		obs := o.String()
		if s.WriteVisible {
			obs += lateWriteMark(r, o)
		}
		if r.Outcome != "returned" {
			obs += "|" + o.Detail
		}
		if fw != nil {
			obs = fmt.Sprintf("fired=%v|", fw.fired) + obs
		}
		return r, obs
	}
}

type schedMode struct {
	Delay     bool
	P, M      int
	Unbounded bool
	MaxExecs  int
}

func (m schedMode) String() string {
	if m.Unbounded {
		return "U"
	}
	if m.Delay {
		return fmt.Sprintf("D%dM%d", m.P, m.M)
	}
	return fmt.Sprintf("P%dM%d", m.P, m.M)
}

func parseMode(s string) schedMode {
	if s == "U" {
		return schedMode{Unbounded: true}
	}
	var m schedMode
	if strings.HasPrefix(s, "D") {
		m.Delay = true
		fmt.Sscanf(s, "D%dM%d", &m.P, &m.M)
		return m
	}
	fmt.Sscanf(s, "P%dM%d", &m.P, &m.M)
	return m
}

func prefixStr(p []int) string {
	ss := make([]string, len(p))
	for i, v := range p {
		ss[i] = strconv.Itoa(v)
	}
	return strings.Join(ss, ".")
}

func parsePrefix(s string) []int {
	if s == "" {
		return nil
	}
	var p []int
	for _, f := range strings.Split(s, ".") {
		n, _ := strconv.Atoi(f)
		p = append(p, n)
	}
	return p
}

// schedJob is one subtree of one scenario's exploration.
type schedJob struct {
	Scen   int    `json:"s"`
	Mode   string `json:"m"`
	Prefix string `json:"p"`
}

// planSched runs, in the parent, the determinism guard, the root execution and (depth levels of)
// its children for every scenario, and returns the subtree jobs.
func planSched(scens []Scenario, depth int, judge func(sc *Scenario, st *engine.Stats, res *engine.JobResult)) ([]string, *engine.JobResult) {
	pre := &engine.JobResult{}
	var jobs, first []string
	defer func() { _ = first }()
	for i := range scens {
		sc := &scens[i]
		fn := sc.execFn()
		mode := parseMode(sc.Mode)
		if mode.Unbounded || (!mode.Delay && mode.P >= 2) {
			// iterative bounding: everything within one preemption first (cheap, and the first
			// counterexample found is the simplest), then the scenario's full mode
			ex1 := engine.NewExplorer(fn, engine.Opts{P: 1, M: 1})
			for _, p := range ex1.Children(nil) { // split at the first level so that long scenarios are shared out
				b, _ := json.Marshal(schedJob{Scen: i, Mode: "P1M1", Prefix: prefixStr(p)})
				first = append(first, string(b))
			}
			accountStats(sc, ex1.St, pre)
			pre.Count("mode_P1M1_prepass_scenarios", 1)
		}
		engine.DeterminismGuard(fn, nil)
		ex := engine.NewExplorer(fn, engine.Opts{P: mode.P, M: mode.M, Unbounded: mode.Unbounded, Delay: mode.Delay})
		level := [][]int{nil}
		dsc := depth
		if dsc > 1 && len(sc.Call.Msa)+len(sc.Call.Sam)+len(sc.Call.Target) > 600 {
			dsc = 1 // long executions (large inputs): the parent only splits at the first level
		}
		for d := 0; d < dsc; d++ {
			var next [][]int
			for _, p := range level {
				next = append(next, ex.Children(p)...)
			}
			level = next
		}
		for _, p := range level {
			b, _ := json.Marshal(schedJob{Scen: i, Mode: mode.String(), Prefix: prefixStr(p)})
			jobs = append(jobs, string(b))
		}
		// the starvation family (one execution per goroutine and per goroutine subtree)
		sc1, st1, who, nst := sc.starveFamily()
		for obs, n := range sc1 {
			ex.St.Execs += 0
			ex.St.Outcomes[obs] += n
			if _, ok := ex.St.FirstTrace[obs]; !ok {
				ex.St.FirstTrace[obs] = st1[obs]
			}
			_ = who
		}
		ex.St.Execs += nst
		pre.Count("starvation_schedules", nst)
		// the suspension family (one execution per continuation point of the canonical execution)
		sc2, st2, who2, nsu := sc.suspendFamily()
		for obs, n := range sc2 {
			key := obs
			if _, canonical := ex.St.Outcomes[obs]; !canonical {
				key = obs + "|SUSPENDED " + who2[obs]
			}
			ex.St.Outcomes[key] += n
			if _, ok := ex.St.FirstTrace[key]; !ok {
				ex.St.FirstTrace[key] = st2[obs]
			}
		}
		ex.St.Execs += nsu
		pre.Count("suspension_schedules", nsu)
		accountStats(sc, ex.St, pre)
		pre.Count("mode_"+mode.String()+"_scenarios", 1)
		if judge != nil {
			judge(sc, ex.St, pre)
		}
	}
	return append(first, jobs...), pre
}

// schedJobCap bounds the executions of one subtree job (0 = none). No job on the unchanged tree comes
// near it; it only keeps a check finite when a change to gofasta makes an unbounded space explode
// (the violation is then found by the one-preemption pre-pass or within the cap, and the evidence says
// exhaustive=false).
var schedJobCap = 0
var schedJobTime time.Duration

func accountStats(sc *Scenario, st *engine.Stats, res *engine.JobResult) {
	res.Evals += st.Execs
	res.States += st.States
	res.Transitions += st.Transitions
	res.Count("schedules", st.Execs)
	res.Count("scheduling_steps", st.Steps)
	res.Count("hb_cache_hits", st.CacheHits)
	if false {
		res.Counters["max_points"] = st.MaxPoints
	}
	if res.Outcomes == nil {
		res.Outcomes = map[string]int{}
	}
	for k, v := range st.Outcomes {
		res.Outcomes[sc.Name+"\x00"+k] += v
	}
	res.Capped = res.Capped || st.Capped
}

var explorers = map[string]*engine.Explorer{}

// execSched explores one subtree job in a worker.
func execSched(scens []Scenario, job string, judge func(sc *Scenario, st *engine.Stats, res *engine.JobResult)) *engine.JobResult {
	var j schedJob
	if err := json.Unmarshal([]byte(job), &j); err != nil {
		engine.EngineError("bad sched job %q: %v", job, err)
	}
	sc := &scens[j.Scen]
	mode := parseMode(j.Mode)
	key := fmt.Sprintf("%d|%s", j.Scen, j.Mode)
	ex := explorers[key]
	if ex == nil {
		ex = engine.NewExplorer(sc.execFn(), engine.Opts{P: mode.P, M: mode.M, Unbounded: mode.Unbounded, Delay: mode.Delay, MaxExecs: schedJobCap})
		explorers[key] = ex
	}
	ex.St = engine.NewStats()
	if schedJobTime > 0 {
		ex.Opt.Until = time.Now().Add(schedJobTime)
	}
	ex.Subtree(parsePrefix(j.Prefix))
	res := &engine.JobResult{}
	accountStats(sc, ex.St, res)
	if judge != nil {
		judge(sc, ex.St, res)
	}
	if zzvs.MapOrderCapped {
		res.Notes = append(res.Notes, fmt.Sprintf("a map with more than %d keys was iterated: its orders were explored through a fixed family (sorted, reversed, rotations, adjacent swaps), not all permutations", zzvs.MaxPermKeys))
	}
	return res
}

// schedCase is the replayable form of one execution.
type schedCase struct {
	Scenario Scenario `json:"scenario"`
	Suspend  string   `json:"suspend,omitempty"` // suspension family: "<goroutine id>#<k>", the continuation kept suspended
	Trace    []int    `json:"trace"`
	Obs      string   `json:"observed"`
	Expect   string   `json:"expected,omitempty"`
}

// suspendOf extracts the suspension policy from an observation key of the suspension family.
func suspendOf(obs string) string {
	if i := strings.LastIndex(obs, "|SUSPENDED "); i >= 0 {
		return obs[i+len("|SUSPENDED "):]
	}
	return ""
}

// replayCase re-executes one recorded execution (trace, or suspension policy).
func replayCase(c *schedCase) string {
	if c.Suspend != "" {
		_, obs := c.Scenario.execPolicy("", c.Suspend)
		return obs
	}
	_, obs := c.Scenario.execFn()(c.Trace)
	return obs
}

// ---- generic schedule layer for the input-quantified properties ----
//
// The Engine I layers of a property judge the canonical schedule's output against the property's
// oracle. The schedule layer adds the "--threads / any interleaving" half: on a few inputs of the
// property's own pipeline (4 records under every execution with <=2 non-default scheduling choices,
// 70 records — more than any channel buffer — with <=1, plus the starvation family) every explored
// execution must produce the canonical schedule's observation.

func canonJudge(prefix string) func(sc *Scenario, st *engine.Stats, res *engine.JobResult) {
	canon := map[string]string{}
	return func(sc *Scenario, st *engine.Stats, res *engine.JobResult) {
		want, ok := canon[sc.Name]
		if !ok {
			plain := *sc
			plain.Call.PriorCall, plain.Call.PriorFailedCall = false, false // a call's result must not depend on earlier calls
			_, want = plain.execFn()(nil)
			canon[sc.Name] = want
		}
		for obs, n := range st.Outcomes {
			if strings.Contains(obs, lateWrite) {
				res.Violate(prefix+":write-after-return", fmt.Sprintf("scenario %s: %d explored execution(s): %.400s", sc.Name, n, obs), schedCase{Scenario: *sc, Trace: st.FirstTrace[obs], Obs: obs})
				continue
			}
			if obs == want {
				res.Nontrivial += n
				continue
			}
			kind := "output"
			switch {
			case strings.HasPrefix(obs, "panic"):
				kind = "panic"
			case strings.HasPrefix(obs, "deadlock"):
				kind = "deadlock"
			}
			res.Violate(prefix+":schedule-dependent-"+kind, fmt.Sprintf("scenario %s: %d explored execution(s) give %.300s; the canonical schedule gives %.300s", sc.Name, n, obs, want), schedCase{Scenario: *sc, Trace: st.FirstTrace[obs], Suspend: suspendOf(obs), Obs: obs, Expect: want})
		}
	}
}

// addSchedLayer wraps a property's Plan/Exec with a schedule layer over scens.

// addRacePass registers the scenarios of a property's schedule layer for the complementary free-running
// -race pass (run before the jobs): each scenario in its own cold process, threads 2..16.
func addRacePass(p *Prop, scens func() []Scenario) {
	layerByProp[p.ID] = scens
	pre := p.Pre
	id := p.ID
	p.Pre = func(tier string, total *engine.JobResult) {
		if pre != nil {
			pre(tier, total)
		}
		var names []string
		for _, sc := range scens() {
			if !sc.WriteVisible {
				names = append(names, sc.Name)
			}
		}
		racePass(id, total, []string{"4"}, names)
	}
	p.Assumptions = append(p.Assumptions, "schedule layer: code between two scheduling points is goroutine-local; validated by a free-running -race pass of the layer's scenarios (each in a cold process, threads 2..16), not by the scheduler")
}

var layerScens []func() []Scenario
var layerByProp = map[string]func() []Scenario{}

func addSchedLayer(p *Prop, prefix string, scens func() []Scenario) {
	layerScens = append(layerScens, scens)
	addRacePass(p, scens)
	var cached []Scenario
	get := func() []Scenario {
		if cached == nil {
			cached = scens()
		}
		return cached
	}
	judge := canonJudge(prefix)
	plan, exec := p.Plan, p.Exec
	p.Plan = func(tier string) ([]string, *engine.JobResult) {
		scs, depth := get(), 1
		if tier == "thorough" {
			// deeper bounds: 4 non-default choices on the small inputs, 2 on the large ones, 3 with visible writes
			scs = append([]Scenario{}, scs...)
			for i := range scs {
				switch scs[i].Mode {
				case "D2M1":
					scs[i].Mode = "D4M2"
				case "D1M0":
					scs[i].Mode = "D2M0"
				case "D2M0":
					scs[i].Mode = "D3M1"
				}
			}
			depth = 2
		}
		sj, pre := planSched(scs, depth, judge)
		jobs, pre2 := plan(tier)
		if pre2 != nil {
			pre.Merge(pre2)
		}
		return append(sj, jobs...), pre
	}
	p.Exec = func(tier, job string) *engine.JobResult {
		if strings.HasPrefix(job, "{") {
			return execSched(get(), job, judge)
		}
		if strings.HasPrefix(job, "case:") {
			var c schedCase
			if err := json.Unmarshal([]byte(job[5:]), &c); err == nil && c.Scenario.Name != "" && c.Scenario.Call.Cmd != "" {
				res := &engine.JobResult{Evals: 1}
				obs := replayCase(&c)
				if c.Expect != "" && obs != c.Expect {
					res.Violate(prefix+":schedule-dependent-output", fmt.Sprintf("trace gives %.300s, expected %.300s", obs, c.Expect), c)
				}
				return res
			}
		}
		return exec(tier, job)
	}
	p.Rule += " Schedule layer: on 4-record inputs of this property's pipeline every execution with <=2 (thorough: <=4) non-default scheduling choices (2 workers), on 70-record inputs (more than any channel buffer) every execution with <=1 (thorough: <=2), on 3-record inputs with every Write to the output as a visible operation every execution with <=2 (thorough: <=3) - no write may be pending when the command returns -, on 1- and 2-record inputs where listed every interleaving, plus the starvation family (each goroutine in turn runs only when nothing else can), must reproduce the canonical schedule's output (which the layers above judge)."
}

// schedPair builds the 4-record (D2M1) and 70-record (D1M1) scenarios of one call shape.
func schedPair(name string, mk func(n int) Call, extraSizes ...int) []Scenario {
	var out []Scenario
	for _, n := range append([]int{4, 70}, extraSizes...) {
		c := mk(n)
		if c.Threads == 0 {
			c.Threads = 2
		}
		c.NCPU = 2
		mode := "D2M1"
		if n <= 2 {
			mode = "U" // tiny inputs (where a stage can finish before the next one looks): every interleaving
		}
		if n > 20 {
			mode = "D1M0" // map orders are varied on the 4-record input; a 70-key map would multiply the runs by 140
		}
		out = append(out, Scenario{Name: fmt.Sprintf("%s/n%d/t2", name, n), Family: name, Call: c, Mode: mode})
	}
	// operation history: the same call made twice in one process; the second must give what a first call gives
	{
		c := mk(4)
		if c.Threads == 0 {
			c.Threads = 2
		}
		c.NCPU = 2
		c.PriorCall = true
		out = append(out, Scenario{Name: fmt.Sprintf("%s/n4/t2/second-call", name), Family: name, Call: c, Mode: "D1M0"})
	}
	// the output destination is an *os.File, as it is in the CLI (4 records, <=1 non-default choice + families)
	{
		c := mk(4)
		if c.Threads == 0 {
			c.Threads = 2
		}
		c.NCPU = 2
		c.ToFile = true
		if c.Cmd != "topa" {
			out = append(out, Scenario{Name: fmt.Sprintf("%s/n4/t2/to-file", name), Family: name, Call: c, Mode: "D1M0"})
		}
	}
	// output writes as visible operations (3 records, every execution with <=2 non-default choices): no write
	// may still be pending when the command returns, whatever the schedule
	c := mk(3)
	if c.Threads == 0 {
		c.Threads = 2
	}
	c.NCPU = 2
	out = append(out, Scenario{Name: fmt.Sprintf("%s/n3/t2/writes-visible", name), Family: name, Call: c, Mode: "D2M0", WriteVisible: true})
	return out
}

// mutated returns n distinct variants of a base sequence (one substitution each, cycling positions).
func mutated(base string, n int) []string {
	var out []string
	for i := 0; i < n; i++ {
		b := []byte(base)
		p := i % len(base)
		alts := "ACGT"
		b[p] = alts[(strings.IndexByte(alts, upper(base[p]))+1+i/len(base))%4]
		out = append(out, fmt.Sprintf("s%02d", i), string(b))
	}
	return out
}
