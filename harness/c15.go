package main

// C15 — windowing, padding, wrapping and input-channel options only select or re-lay-out.
// Metamorphic relations between runs of the real code; the CLI-only relations (legacy flags, stdin)
// go through the real binary.

import (
	"fmt"
	"regexp"
	"strconv"
	"strings"
	"time"

	"harness/engine"
)

type c15Case struct {
	Relation string `json:"relation"`
	Base     Call   `json:"base"`     // the unrestricted run
	Opt      Call   `json:"opt"`      // the run with the option
	Feats    []Feat `json:"features,omitempty"`
	Legacy   []string `json:"legacy_args,omitempty"`
}

func runOK(c Call) (Obs, bool) {
	o := c.Canon()
	return o, o.Outcome == "returned" && !o.HasErr
}

// unwrapFasta joins sequence lines; returns records and whether every record's lines obey width w.
func unwrapCheck(out string, w int) ([]fastaRec, bool) {
	recs, ok := parseFasta(out)
	if !ok {
		return nil, false
	}
	for _, r := range recs {
		if !wrapOK(r.Widths, len(r.Seq), w) {
			return recs, false
		}
	}
	return recs, true
}

func sameRecs(a, b []fastaRec) bool {
	if len(a) != len(b) {
		return false
	}
	for i := range a {
		if a[i].Header != b[i].Header || a[i].Seq != b[i].Seq {
			return false
		}
	}
	return true
}

var reAApos = regexp.MustCompile(`^aa:([^:]+):[A-Z*]([0-9]+)[A-Z*]`)

// c15Pos: the genomic position a mutation record is filtered on; ok=false if not judged
// (aa records in codons that straddle a join).
func c15Pos(m string, feats []Feat) (int, bool) {
	if p, ok := c13PosOf(m); ok {
		return p, true
	}
	g := reAApos.FindStringSubmatch(m)
	if g == nil {
		return 0, false
	}
	k, _ := strconv.Atoi(g[2])
	for _, f := range feats {
		if f.Name != g[1] {
			continue
		}
		pos := f.codingPositions()
		if 3*k > len(pos) {
			return 0, false
		}
		a, b, c := pos[3*k-3], pos[3*k-2], pos[3*k-1]
		if !((b == a+1 && c == b+1) || (b == a-1 && c == b-1)) {
			return 0, false // straddles a join
		}
		return a, true
	}
	return 0, false
}

func c15Check(c c15Case, res *engine.JobResult) {
	res.Evals++
	ob, ok1 := runOK(c.Base)
	oo, ok2 := runOK(c.Opt)
	if !ok1 {
		res.Count("base_run_failed_not_judged:"+c.Relation, 1)
		if len(res.Notes) < 2 {
			res.Notes = append(res.Notes, "base run failed: "+c.Relation+": "+ob.String()+" "+ob.Detail)
		}
		return
	}
	if !ok2 {
		res.Violate(c.Relation+":option-run-failed", fmt.Sprintf("the unrestricted run succeeds but the run with the option fails: %s %s", oo.String(), oo.Detail), c)
		return
	}
	res.Nontrivial++
	bad := func(format string, a ...interface{}) {
		res.Violate(c.Relation, fmt.Sprintf(format, a...), c)
	}
	s, e := c.Opt.Start, c.Opt.End
	switch c.Relation {
	case "toma-window":
		br, _ := parseFasta(ob.Out)
		or, okp := parseFasta(oo.Out)
		if !okp || len(br) != len(or) {
			bad("record structure differs: %q vs %q", ob.Out, oo.Out)
			return
		}
		for i := range br {
			want := tomaWindow(br[i].Seq, s, e, c.Opt.Pad)
			if or[i].Header != br[i].Header || or[i].Seq != want {
				bad("record %s: --start %d --end %d pad=%v gives %q, columns of the unrestricted run give %q", br[i].Header, s, e, c.Opt.Pad, or[i].Seq, want)
				return
			}
		}
	case "toma-wrap", "topa-wrap":
		br, _ := parseFasta(ob.Out)
		or, okw := unwrapCheck(oo.Out, c.Opt.Wrap)
		if !okw || !sameRecs(br, or) {
			bad("--wrap %d does more than re-break lines: %q vs unwrapped %q", c.Opt.Wrap, oo.Out, ob.Out)
		}
	case "topa-window":
		br, _ := parseFasta(ob.Out)
		or, okp := parseFasta(oo.Out)
		if !okp || len(br) != len(or) || len(br)%2 != 0 {
			bad("record structure differs: %q vs %q", ob.Out, oo.Out)
			return
		}
		for i := 0; i < len(br); i += 2 {
			refRow, qRow := br[i].Seq, br[i+1].Seq
			var baseCol []int
			for k := 0; k < len(refRow); k++ {
				if refRow[k] != '-' {
					baseCol = append(baseCol, k)
				}
			}
			wr, wq := pairWindow(refRow, qRow, baseCol, s, e)
			if or[i].Seq != wr || or[i+1].Seq != wq || or[i+1].Header != br[i+1].Header {
				bad("query %s: --start %d --end %d gives %q/%q, cutting the unrestricted pair gives %q/%q", br[i+1].Header, s, e, or[i].Seq, or[i+1].Seq, wr, wq)
				return
			}
		}
	case "variants-window-aggregate":
		_, counts, nseq := c13PerSeq(c.Base)
		if counts == nil {
			return
		}
		want := map[string]int{}
		for m, k := range counts {
			p, ok := c15Pos(m, c.Feats)
			if !ok {
				res.Count("aggregate_windows_with_join_straddling_codon_not_judged", 1)
				return
			}
			if (s == 0 || p >= s) && (e == 0 || p <= e) {
				want[m] = k
			}
		}
		tmp := &engine.JobResult{}
		c13Check(c13Case{c.Opt, 0}, want, nseq, tmp)
		if len(tmp.Violations) > 0 {
			bad("--aggregate --start %d --end %d: %s", s, e, tmp.Violations[0].Msg)
		}
	case "variants-window":
		bm, border, okb := parseVariantRows(ob.Out)
		om, oorder, oko := parseVariantRows(oo.Out)
		if !okb || !oko || len(border) != len(oorder) {
			bad("row structure differs: %q vs %q", ob.Out, oo.Out)
			return
		}
		for i, n := range border {
			if oorder[i] != n {
				bad("row order differs")
				return
			}
			var want []string
			judged := true
			if bm[n] != "" {
				for _, m := range strings.Split(bm[n], "|") {
					p, ok := c15Pos(m, c.Feats)
					if !ok {
						judged = false
						break
					}
					if (s == 0 || p >= s) && (e == 0 || p <= e) {
						want = append(want, m)
					}
				}
			}
			if !judged {
				res.Count("rows_with_join_straddling_codon_not_judged", 1)
				continue
			}
			if om[n] != strings.Join(want, "|") {
				cause := c.Relation
				if (s == 0) != (e == 0) {
					cause += ":single-bound"
				}
				res.Violate(cause, fmt.Sprintf("%s --start %d --end %d (0 = unset): %s gets %q; filtering the unrestricted list %q by position gives %q", c.Base.Cmd, s, e, n, om[n], bm[n], strings.Join(want, "|")), c)
				return
			}
		}
	}
}

// ---- CLI-only relations ----

func c15Legacy(c c15Case, res *engine.JobResult) {
	res.Evals++
	res.Validated++
	newO, _ := c.Opt.CLI(nil, 0)
	args, stdin, outfile, cleanup := c.Base.cliArgs(0)
	defer cleanup()
	args = append(args, c.Legacy...)
	r := engine.CLI(stdin, 120*time.Second, nil, args...)
	oldO := c.Base.cliObs(r, outfile)
	if newO.String() != oldO.String() {
		res.Violate("legacy-trim-flags", fmt.Sprintf("legacy %v gives %s; the equivalent --start/--end run gives %s", c.Legacy, oldO.String(), newO.String()), c)
	} else {
		res.Nontrivial++
	}
}

func init() {
	gb := func(fs []Feat) string { return renderGenbank(c04Genome, fs) }
	register(&Prop{
		ID:    "C15",
		Level: "model_checking",
		Rule: "bounded-exhaustive metamorphic relations on the real code: for 12 representative SAM files, every window 1<=s<=e<=L and each bound alone: toMultiAlign --start/--end (pad off/on) = columns of the unrestricted run; toPairAlign --start/--end = the unrestricted pair cut by reference columns; every --wrap 1..L+2 only re-breaks lines (toMultiAlign and toPairAlign); for 8 annotation layouts x query sets (substitutions, deletions) and for sam variants: --start s / --end e alone or together (every window on an 18-base genome) = the unrestricted list filtered by s<=p<=e, and under --aggregate = the filtered per-sequence lists counted; through the real binary: legacy --trim/--trimstart/--trimend = --start/--end for every window (mixing refused), and `variants` reading the alignment from a pipe = reading the file. " +
			"A case is one (input, relation, option value); non-trivial = both runs succeeded; each generated once",
		Assumptions: []string{
			"p of an aa: record = genomic position of the codon's first base in coding direction; rows containing a codon that straddles a join are not judged for the window relation",
			"relations compare two runs of the real code; the unrestricted runs themselves are judged by C01/C02/C04",
		},
		Bounds: func(tier string) map[string]interface{} {
			return map[string]interface{}{"sam_reference_length": c01L, "variants_genome": c04Genome}
		},
		Plan: func(tier string) ([]string, *engine.JobResult) {
			var jobs []string
			for s := 0; s < 12; s++ {
				jobs = append(jobs, fmt.Sprintf("sam:%d", s))
			}
			for s := 0; s < 8; s++ {
				jobs = append(jobs, fmt.Sprintf("var:%d", s))
			}
			jobs = append(jobs, "samvar", "legacy", "stdin")
			return jobs, nil
		},
		Exec: func(tier, job string) *engine.JobResult {
			res := &engine.JobResult{}
			defer func() { res.Transitions = res.States }()
			if strings.HasPrefix(job, "case:") {
				var c c15Case
				mustJSON(job[5:], &c)
				if c.Relation == "legacy-trim-flags" {
					c15Legacy(c, res)
				} else {
					c15Check(c, res)
				}
				return res
			}
			windows := func(L int, f func(s, e int)) {
				for s := 0; s <= L; s++ {
					for e := 0; e <= L; e++ {
						if s == 0 && e == 0 || (s != 0 && e != 0 && s > e) {
							continue
						}
						f(s, e)
					}
				}
			}
			p := strings.Split(job, ":")
			switch p[0] {
			case "sam":
				var fi int
				fmt.Sscan(p[1], &fi)
				tfiles := c01Files(12)
				pfiles := c02Files(12)
				for _, pad := range []bool{false, true} {
					base := Call{Cmd: "toma", Sam: samText(c01L, tfiles[fi]), Pad: pad, Threads: 1 + fi%2}
					windows(c01L, func(s, e int) {
						o := base
						o.Start, o.End = s, e
						c15Check(c15Case{Relation: "toma-window", Base: base, Opt: o}, res)
						res.States++
					})
					for w := 1; w <= c01L+2; w++ {
						o := base
						o.Wrap = w
						c15Check(c15Case{Relation: "toma-wrap", Base: base, Opt: o}, res)
						res.States++
					}
					// window and wrap together: the wrapped windowed run only re-breaks the lines of the windowed run
					windows(c01L, func(s, e int) {
						wb := base
						wb.Start, wb.End = s, e
						width := c01L
						if !pad {
							lo, hi := s, e
							if lo == 0 {
								lo = 1
							}
							if hi == 0 {
								hi = c01L
							}
							width = hi - lo + 1
						}
						seen := map[int]bool{}
						for _, w := range []int{1, 3, width - 1, width, width + 1, e - s + 1, e - s + 2, c01L - 1} {
							if w < 1 || seen[w] {
								continue
							}
							seen[w] = true
							o := wb
							o.Wrap = w
							c15Check(c15Case{Relation: "toma-wrap", Base: wb, Opt: o}, res)
							res.States++
						}
					})
				}
				for _, omitIns := range []bool{false, true} {
					base := Call{Cmd: "topa", Sam: samText(len(c02RefA), pfiles[fi]), Ref: fastaOf("ref", c02RefA), OmitIns: omitIns, Threads: 1 + fi%3}
					windows(len(c02RefA), func(s, e int) {
						o := base
						o.Start, o.End = s, e
						c15Check(c15Case{Relation: "topa-window", Base: base, Opt: o}, res)
						res.States++
					})
					for w := 1; w <= len(c02RefA)+4; w++ {
						o := base
						o.Wrap = w
						c15Check(c15Case{Relation: "topa-wrap", Base: base, Opt: o}, res)
						res.States++
					}
					windows(len(c02RefA), func(s, e int) {
						if (s+e)%2 == 0 {
							return
						}
						wb := base
						wb.Start, wb.End = s, e
						for _, w := range []int{1, 2, e - s + 1, e - s + 2, len(c02RefA) - 1} {
							if w < 1 {
								continue
							}
							o := wb
							o.Wrap = w
							c15Check(c15Case{Relation: "topa-wrap", Base: wb, Opt: o}, res)
							res.States++
						}
					})
				}
				if fi == 0 {
					// consecutive queries whose insertions have the same total length at different sites, one worker
					r := c02RefA
					eq := []SamRec{
						{Name: "qa", Pos: 1, Cigar: parseCigar(fmt.Sprintf("2M2I%dM", len(r)-2)), Seq: r[:2] + "GG" + r[2:]},
						{Name: "qb", Pos: 1, Cigar: parseCigar(fmt.Sprintf("5M2I%dM", len(r)-5)), Seq: r[:5] + "GG" + r[5:]},
						{Name: "qc", Pos: 1, Cigar: parseCigar(fmt.Sprintf("%dM", len(r))), Seq: r},
						{Name: "qd", Pos: 1, Cigar: parseCigar(fmt.Sprintf("1M2I%dM", len(r)-1)), Seq: r[:1] + "TT" + r[1:]},
					}
					for _, th := range []int{1, 2} {
						base := Call{Cmd: "topa", Sam: samText(len(r), eq), Ref: fastaOf("ref", r), Threads: th}
						windows(len(r), func(s, e int) {
							o := base
							o.Start, o.End = s, e
							c15Check(c15Case{Relation: "topa-window", Base: base, Opt: o}, res)
							res.States++
						})
					}
				}
				if fi == 3 {
					base := Call{Cmd: "toma", Sam: samText(c01L, tfiles[fi])}
					o := base
					o.Start, o.End = 2, 5
					res.Sample(c15Case{Relation: "toma-window", Base: base, Opt: o})
				}
			case "var":
				var li int
				fmt.Sscan(p[1], &li)
				l := c04Layouts()[li]
				qs := c04Queries(c04Genome, false)
				// a few double substitutions and deletions so rows have several records
				for i := 0; i+7 < len(c04Genome); i += 3 {
					b := []byte(c04Genome)
					b[i], b[i+4], b[i+7] = 'C', 'G', 'A'
					qs = append(qs, string(b))
					qs = append(qs, c04Genome[:i+1]+"--"+c04Genome[i+3:])
				}
				recs := []string{"ref", c04Genome}
				for i, q := range qs {
					recs = append(recs, fmt.Sprintf("q%d", i), q)
				}
				for fi, format := range l.Formats {
					anno := gb(l.Feats)
					if format == "gff" {
						anno = renderGFF(c04Genome, l.Feats, true, true)
					}
					base := Call{Cmd: "variants", Msa: fastaOf(recs...), RefID: "ref", Anno: anno, AnnoSuffix: format, AppendSNP: (li+fi)%2 == 0, Threads: 2}
					windows(len(c04Genome), func(s, e int) {
						o := base
						o.Start, o.End = s, e
						c15Check(c15Case{Relation: "variants-window", Base: base, Opt: o, Feats: l.Feats}, res)
						res.States++
					})
					// --aggregate with a window = the unrestricted per-sequence lists, filtered by position, counted
					windows(len(c04Genome), func(s, e int) {
						o := base
						o.Start, o.End, o.Aggregate = s, e, true
						c15Check(c15Case{Relation: "variants-window-aggregate", Base: base, Opt: o, Feats: l.Feats}, res)
						res.States++
					})
				}
				// an alignment whose reference row starts and ends with gap columns: insertions at positions 0 and L
				{
					g := c04Genome
					recs2 := []string{"ref", "--" + g + "-", "qlead", "GG" + g + "-", "qtail", "--" + g + "T", "qboth", "GA" + g[:4] + "C" + g[5:] + "T", "qnone", "--" + g + "-"}
					base := Call{Cmd: "variants", Msa: fastaOf(recs2...), RefID: "ref", Anno: gb(l.Feats), AnnoSuffix: "gb", Threads: 2}
					windows(len(g), func(s, e int) {
						o := base
						o.Start, o.End = s, e
						c15Check(c15Case{Relation: "variants-window", Base: base, Opt: o, Feats: l.Feats}, res)
						res.States++
					})
					if li%2 == 0 {
						for _, w := range [][2]int{{0, 7}, {1, 0}, {2, 5}, {0, len(g)}} {
							o := base
							o.Start, o.End = w[0], w[1]
							ob, _ := o.CLI(nil, 0)
							oc := o.Canon()
							res.Evals++
							res.Validated++
							if ob.String() != oc.String() {
								res.Violate("variants-window:binary-differs", fmt.Sprintf("variants (alignment with insertions before base 1 and after base L): real binary with --start %d --end %d gives %s; in-process %s", w[0], w[1], ob.String(), oc.String()), c15Case{Relation: "variants-window", Base: o, Opt: o, Feats: l.Feats})
							}
						}
					}
				}
				// the same relation through the real binary's flag layer, for a few windows
				if li%2 == engine.Seed()%2 {
					for _, w := range [][2]int{{3, 0}, {0, 7}, {4, 11}} {
						for _, agg := range []bool{false, true} {
							o := Call{Cmd: "variants", Msa: fastaOf(recs...), RefID: "ref", Anno: gb(l.Feats), AnnoSuffix: "gb", Start: w[0], End: w[1], Aggregate: agg, Threshold: 0.01, AppendSNP: true, Threads: 2}
							if l.Formats[0] == "gff" {
								o.Anno, o.AnnoSuffix = renderGFF(c04Genome, l.Feats, true, true), "gff"
							}
							ob, _ := o.CLI(nil, 0)
							oc := o.Canon()
							res.Evals++
							res.Validated++
							if ob.String() != oc.String() {
								res.Violate("variants-window:binary-differs", fmt.Sprintf("real binary with --start %d --end %d aggregate=%v gives %s; the entry point called in-process gives %s", w[0], w[1], agg, ob.String(), oc.String()), c15Case{Relation: "variants-window", Base: o, Opt: o, Feats: l.Feats})
							}
						}
					}
				}
			case "samvar":
				feats := []Feat{{Name: "orfA", Segs: []Seg{{1, 9}}}, {Name: "orfR", Segs: []Seg{{10, 18}}, Reverse: true}}
				var srecs []SamRec
				for i, q := range c04Queries(c04Genome, false) {
					if i%3 == 0 {
						srecs = append(srecs, SamRec{Name: fmt.Sprintf("q%d", i), Pos: 1, Cigar: []CigOp{{'M', 18}}, Seq: strings.ReplaceAll(strings.ReplaceAll(q, "-", "A"), "R", "G")})
					}
				}
				srecs = append(srecs, SamRec{Name: "qi", Pos: 1, Cigar: parseCigar("4M2I6M3D5M"), Seq: "ATGAGGAATAGTTCCAT"}, SamRec{Name: "qd", Pos: 3, Cigar: parseCigar("5M2D9M"), Seq: "GAAATTTAATCCAT"},
					// insertions before the first and after the last reference base (positions 0 and L)
					SamRec{Name: "qlead", Pos: 1, Cigar: parseCigar("2I18M"), Seq: "GG" + c04Genome}, SamRec{Name: "qtail", Pos: 1, Cigar: parseCigar("18M3I"), Seq: c04Genome + "TTT"})
				for _, format := range []string{"gb", "gff"} {
					anno := gb(feats)
					if format == "gff" {
						anno = renderGFF(c04Genome, feats, true, true)
					}
					base := Call{Cmd: "samvariants", Sam: samText(18, srecs), Ref: fastaOf("ref", c04Genome), Anno: anno, AnnoSuffix: format, Threads: 2}
					windows(len(c04Genome), func(s, e int) {
						o := base
						o.Start, o.End = s, e
						c15Check(c15Case{Relation: "variants-window", Base: base, Opt: o, Feats: feats}, res)
						res.States++
					})
					// the same windows through the real binary's flag layer (each bound alone and both)
					for _, w := range [][2]int{{5, 0}, {0, 7}, {4, 11}, {1, 0}, {0, 18}} {
						for _, agg := range []bool{false, true} {
							o := base
							o.Start, o.End, o.Aggregate = w[0], w[1], agg
							ob, _ := o.CLI(nil, 0)
							oc := o.Canon()
							res.Evals++
							res.Validated++
							if ob.String() != oc.String() {
								res.Violate("variants-window:binary-differs", fmt.Sprintf("sam variants: real binary with --start %d --end %d aggregate=%v gives %s; the entry point called in-process gives %s", w[0], w[1], agg, ob.String(), oc.String()), c15Case{Relation: "variants-window", Base: o, Opt: o, Feats: feats})
							}
						}
					}
				}
			case "legacy":
				for fi, recs := range c01Files(6) {
					for _, pad := range []bool{false, true} {
						windows(c01L, func(s, e int) {
							base := Call{Cmd: "toma", Sam: samText(c01L, recs), Pad: pad, Threads: 1 + fi%2}
							o := base
							o.Start, o.End = s, e
							leg := []string{"--trim"}
							if s != 0 {
								leg = append(leg, "--trimstart", fmt.Sprint(s-1))
							}
							if e != 0 {
								leg = append(leg, "--trimend", fmt.Sprint(e))
							}
							c15Legacy(c15Case{Relation: "legacy-trim-flags", Base: base, Opt: o, Legacy: leg}, res)
							res.States++
							if (s+e)%3 == 0 {
								// the legacy coordinates are honoured with or without the legacy on-switch
								c15Legacy(c15Case{Relation: "legacy-trim-flags", Base: base, Opt: o, Legacy: leg[1:]}, res)
								res.States++
							}
						})
					}
					// mixing the two families must be refused
					base := Call{Cmd: "toma", Sam: samText(c01L, recs), Start: 2}
					args, stdin, _, cleanup := base.cliArgs(0)
					r := engine.CLI(stdin, 120*time.Second, nil, append(args, "--trimend", "4")...)
					cleanup()
					res.Evals++
					res.Validated++
					if r.Exit == 0 {
						res.Violate("legacy-trim-flags:mixing-accepted", "--start together with --trimend is accepted (exit 0)", c15Case{Relation: "legacy-trim-flags", Base: base, Legacy: []string{"--trimend", "4"}})
					}
				}
			case "stdin":
				for li, l := range c04Layouts() {
					qs := c04Queries(c04Genome, false)
					recs := []string{"ref", c04Genome}
					for i, q := range qs {
						recs = append(recs, fmt.Sprintf("q%d", i), q)
					}
					for _, format := range l.Formats {
						anno := gb(l.Feats)
						if format == "gff" {
							anno = renderGFF(c04Genome, l.Feats, true, true)
						}
						for _, agg := range []bool{false, true} {
							file := Call{Cmd: "variants", Msa: fastaOf(recs...), RefID: "ref", Anno: anno, AnnoSuffix: format, Aggregate: agg, Threads: 1 + li%3}
							pipe := file
							pipe.Stdin = true
							of, _ := file.CLI(nil, 0)
							op, _ := pipe.CLI(nil, 0)
							res.Evals++
							res.Validated++
							res.States++
							if of.String() != op.String() {
								res.Violate("variants-stdin", fmt.Sprintf("reading the alignment from a pipe gives %s; reading the same file gives %s", op.String(), of.String()), c15Case{Relation: "variants-stdin", Base: file, Opt: pipe})
							} else {
								res.Nontrivial++
							}
							// and in-process, on the canonical schedule
							c1, c2 := file.Canon(), pipe.Canon()
							if c1.String() != c2.String() {
								res.Violate("variants-stdin", fmt.Sprintf("stdin-style reading gives %s; file-style gives %s", c2.String(), c1.String()), c15Case{Relation: "variants-stdin", Base: file, Opt: pipe})
							}
						}
					}
				}
			}
			return res
		},
	})
}
