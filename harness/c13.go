package main

// C13 — --aggregate frequencies are exactly the per-sequence results, counted.
// Differential between two modes of the real code.

import (
	"fmt"
	"math"
	"sort"
	"strconv"
	"strings"

	"harness/engine"
)

type c13Case struct {
	Call      Call    `json:"call"` // the per-sequence call; the aggregate call is the same with Aggregate/Threshold set
	Threshold float64 `json:"threshold"`
}

func c13PosOf(m string) (int, bool) {
	f := strings.Split(m, ":")
	switch f[0] {
	case "ins", "del":
		n, err := strconv.Atoi(f[1])
		return n, err == nil
	case "nuc":
		g := reNuc.FindStringSubmatch(m)
		if g == nil {
			return 0, false
		}
		n, _ := strconv.Atoi(g[2])
		return n, true
	case "aa":
		return 0, false
	}
	// snps command: <REF><pos><ALT>
	if len(m) >= 3 {
		n, err := strconv.Atoi(m[1 : len(m)-1])
		return n, err == nil
	}
	return 0, false
}

// c13PerSeq runs the per-sequence mode and returns mutation -> number of sequences containing it, and
// the number of (non-reference) sequences.
func c13PerSeq(call Call) (Obs, map[string]int, int) {
	call.Aggregate = false
	o := call.Canon()
	if o.Outcome != "returned" || o.HasErr {
		return o, nil, 0
	}
	lines := strings.Split(strings.TrimSuffix(o.Out, "\n"), "\n")
	counts := map[string]int{}
	for _, l := range lines[1:] {
		i := strings.IndexByte(l, ',')
		if i < 0 {
			o.Outcome = "unparseable"
			return o, nil, 0
		}
		seen := map[string]bool{}
		if l[i+1:] != "" {
			for _, m := range strings.Split(l[i+1:], "|") {
				if !seen[m] {
					seen[m] = true
					counts[m]++
				}
			}
		}
	}
	return o, counts, len(lines) - 1
}

func c13Check(c c13Case, counts map[string]int, n int, res *engine.JobResult) {
	call := c.Call
	call.Aggregate = true
	call.Threshold = c.Threshold
	o := call.Canon()
	res.Evals++
	if o.Outcome != "returned" || o.HasErr {
		res.Violate("aggregate:"+o.Outcome, fmt.Sprintf("--aggregate failed where the per-sequence mode works: %s %s", o.String(), o.Detail), c)
		return
	}
	lines := strings.Split(strings.TrimSuffix(o.Out, "\n"), "\n")
	wantHeader := "mutation,frequency"
	if call.Cmd == "snps" {
		wantHeader = "SNP,frequency"
	}
	if lines[0] != wantHeader {
		res.Violate("aggregate:header", "header "+lines[0], c)
		return
	}
	got := map[string]string{}
	lastPos := -1
	for _, l := range lines[1:] {
		i := strings.LastIndexByte(l, ',')
		if i < 0 {
			res.Violate("aggregate:format", "row "+l, c)
			return
		}
		m, f := l[:i], l[i+1:]
		if _, dup := got[m]; dup {
			res.Violate("aggregate:mutation-listed-twice", fmt.Sprintf("%s appears twice in %q", m, o.Out), c)
			return
		}
		got[m] = f
		if p, ok := c13PosOf(m); ok {
			if p < lastPos {
				res.Violate("aggregate:order", fmt.Sprintf("positions not non-decreasing in %q", o.Out), c)
				return
			}
			lastPos = p
		}
	}
	want := map[string]string{}
	for m, k := range counts {
		f := float64(k) / float64(n)
		if f >= c.Threshold {
			want[m] = strconv.FormatFloat(f, 'f', 9, 64)
		}
	}
	if len(counts) > 0 {
		res.Nontrivial++
	}
	var keys []string
	for m := range want {
		keys = append(keys, m)
	}
	for m := range got {
		if _, ok := want[m]; !ok {
			keys = append(keys, m)
		}
	}
	sort.Strings(keys)
	for _, m := range keys {
		if got[m] != want[m] {
			cause := "aggregate:frequency"
			switch {
			case want[m] == "":
				cause = "aggregate:below-threshold-kept-or-invented"
			case got[m] == "":
				cause = "aggregate:mutation-missing"
			}
			res.Violate(cause, fmt.Sprintf("%s with threshold %.17g over %d sequences: %s has frequency %q in --aggregate, the per-sequence output gives %q (count %d)", call.Cmd, c.Threshold, n, m, got[m], want[m], counts[m]), c)
			return
		}
	}
}

// c13Thresholds: 0, 1, every occurring frequency (as the same quotient), the midpoints, and the
// neighbouring floats of each occurring frequency.
func c13Thresholds(counts map[string]int, n int, fine bool) []float64 {
	set := map[float64]bool{0: true, 1: true}
	var fs []float64
	seen := map[int]bool{}
	for _, k := range counts {
		if !seen[k] {
			seen[k] = true
			fs = append(fs, float64(k)/float64(n))
		}
	}
	sort.Float64s(fs)
	for i, f := range fs {
		set[f] = true
		if fine {
			set[math.Nextafter(f, 2)] = true
			set[math.Nextafter(f, -1)] = true
		}
		if i > 0 {
			set[(f+fs[i-1])/2] = true
		}
	}
	var out []float64
	for t := range set {
		out = append(out, t)
	}
	sort.Float64s(out)
	return out
}

var c13MsaMenu = []string{
	"ATGAAATAACCC", // = reference
	"CTGAAATAACCC", // M1L
	"TTGAAATAACCC", // M1L through another codon
	"ATGCAATAACCA", // K2Q + nuc:C12A
	"CTG---TAACCC", // M1L + del:4:3
	"ATGANATAACTC", // nuc:C11T only
}

var c13SnpMenu = []string{"ACGTAC", "CCGTAC", "CCGTAA", "ACNTAA", "TCGTAC", "AC-TCC"}

func c13SamMenu() [][2]string { // cigar, seq (reference g12)
	return [][2]string{
		{"12M", "ATGAAATAACCC"},
		{"12M", "CTGAAATAACCC"},
		{"12M", "TTGAAATAACCC"},
		{"3M3D6M", "CTGTAACCC"},
		{"6M2I6M", "ATGAAAGGTAACCA"},
		{"12M", "ATGCAATAACCA"},
	}
}

func seqsOver(n, maxLen int, f func(idx []int)) (nodes int) {
	var rec func(cur []int)
	rec = func(cur []int) {
		nodes++
		if len(cur) > 0 {
			f(cur)
		}
		if len(cur) == maxLen {
			return
		}
		for i := 0; i < n; i++ {
			rec(append(append([]int{}, cur...), i))
		}
	}
	rec(nil)
	return
}

func init() {
	gb := renderGenbank(g12, []Feat{{Name: "orfA", Segs: []Seg{{1, 9}}}, {Name: "orfB", Segs: []Seg{{4, 9}}}})
	gff := renderGFF(g12, []Feat{{Name: "orfA", Segs: []Seg{{1, 9}}}, {Name: "pepB", Segs: []Seg{{4, 6}}, GffType: "mature_protein_region_of_CDS"}}, true, true)
	register(&Prop{
		ID:    "C13",
		Level: "model_checking",
		Rule: "bounded-exhaustive differential between two modes of the real code: for `snps`, `variants` (GenBank and GFF3, reference record at the first/middle/last position of the alignment, or twice) and `sam variants`, every alignment of 1..4 sequences (thorough 5) drawn with repetition from a 6-row menu (shared and private mutations, the same amino-acid change through two codons, a deletion, an insertion in SAM form) x --append-snps x every threshold in {0, 1, each occurring frequency as the same float64 quotient and its two neighbouring floats, midpoints}; plus the counting layer: n = 1..60 (thorough 120) sequences of which k = 1..n carry a mutation, thresholds k/n and its neighbours. " +
			"The --aggregate output must list exactly the mutations of the per-sequence output with count/N >= threshold, each once, frequency to 9 decimals, positions non-decreasing. A case is one (alignment, options, threshold); non-trivial = at least one mutation; each generated once",
		Assumptions: []string{
			"oracle = the real per-sequence mode on the same input (C03-C05 judge that mode against models)",
			"order among records at equal positions is not judged (C12)",
		},
		Bounds: func(tier string) map[string]interface{} {
			return map[string]interface{}{"menu_rows": 6, "max_sequences": map[string]int{"quick": 4, "thorough": 5}[tier], "counting_layer_max_n": map[string]int{"quick": 60, "thorough": 120}[tier]}
		},
		Plan: func(tier string) ([]string, *engine.JobResult) {
			var jobs []string
			for _, cmd := range []string{"snps", "variants", "samvariants"} {
				for s := 0; s < 16; s++ {
					jobs = append(jobs, fmt.Sprintf("files:%s:%d/16", cmd, s))
				}
			}
			for s := 0; s < 12; s++ {
				jobs = append(jobs, fmt.Sprintf("count:%d/12", s))
			}
			jobs = append(jobs, "cli")
			return jobs, nil
		},
		Exec: func(tier, job string) *engine.JobResult {
			res := &engine.JobResult{}
			defer func() { res.Transitions = res.States }()
			if strings.HasPrefix(job, "case:") {
				var c c13Case
				mustJSON(job[5:], &c)
				o, counts, n := c13PerSeq(c.Call)
				if counts == nil {
					res.Violate("aggregate:per-sequence-mode-failed", o.String()+o.Detail, c)
					return res
				}
				c13Check(c, counts, n, res)
				return res
			}
			build := func(cmd string, idx []int, variant int) Call {
				switch cmd {
				case "snps":
					recs := []string{}
					for i, k := range idx {
						recs = append(recs, fmt.Sprintf("s%d", i), c13SnpMenu[k])
					}
					return Call{Cmd: "snps", Ref: fastaOf("ref", "ACGTAC"), Msa: fastaOf(recs...), HardGaps: variant%2 == 1, NCPU: 2}
				case "variants":
					recs := []string{}
					refAt := []int{0, len(idx) / 2, len(idx)}[variant%3]
					for i, k := range idx {
						if i == refAt {
							recs = append(recs, "ref", g12)
						}
						recs = append(recs, fmt.Sprintf("s%d", i), c13MsaMenu[k])
					}
					if refAt == len(idx) || variant/12%2 == 1 {
						// (variants 12..23: the reference record occurs twice, as when alignments that each carry it are concatenated)
						recs = append(recs, "ref", g12)
					}
					c := Call{Cmd: "variants", Msa: fastaOf(recs...), RefID: "ref", Anno: gb, AnnoSuffix: "gb", AppendSNP: variant/3%2 == 1, Threads: 2}
					if variant/6%2 == 1 {
						c.Anno, c.AnnoSuffix = gff, "gff"
					}
					return c
				default:
					var recs []SamRec
					menu := c13SamMenu()
					for i, k := range idx {
						recs = append(recs, SamRec{Name: fmt.Sprintf("s%d", i), Pos: 1, Cigar: parseCigar(menu[k][0]), Seq: menu[k][1]})
					}
					c := Call{Cmd: "samvariants", Sam: samText(12, recs), Ref: fastaOf("ref", g12), Anno: gb, AnnoSuffix: "gb", AppendSNP: variant%2 == 1, Threads: 2}
					if variant/2%2 == 1 {
						c.Anno, c.AnnoSuffix = gff, "gff"
					}
					return c
				}
			}
			p := strings.Split(job, ":")
			switch p[0] {
			case "files":
				var s, n int
				fmt.Sscanf(p[2], "%d/%d", &s, &n)
				maxLen := 4
				if tier == "thorough" {
					maxLen = 5
				}
				nv := map[string]int{"snps": 2, "variants": 24, "samvariants": 4}[p[1]]
				k := 0
				nodes := seqsOver(6, maxLen, func(idx []int) {
					k++
					if k%n != s {
						return
					}
					// every option variant on a rotating basis for long files, all for short ones
					for v := 0; v < nv; v++ {
						if len(idx) >= 3 && (k+v)%3 != 0 {
							continue
						}
						call := build(p[1], idx, v)
						o, counts, nseq := c13PerSeq(call)
						if counts == nil {
							res.Violate("aggregate:per-sequence-mode-failed", o.String()+o.Detail, c13Case{call, 0})
							continue
						}
						for _, t := range c13Thresholds(counts, nseq, true) {
							c13Check(c13Case{call, t}, counts, nseq, res)
							res.States++
						}
						if k == 50 && v == 0 {
							res.Sample(c13Case{call, 0.5})
						}
					}
				})
				if s == 0 {
					res.States += nodes
				}
			case "count":
				var s, n int
				fmt.Sscanf(p[1], "%d/%d", &s, &n)
				maxN := 60
				if tier == "thorough" {
					maxN = 120
				}
				for N := 1; N <= maxN; N++ {
					if N%n != s {
						continue
					}
					for _, cmd := range []string{"snps", "variants"} {
						for k := 1; k <= N; k++ {
							idx := make([]int, N)
							for i := 0; i < k; i++ {
								idx[i] = 1
							}
							call := build(cmd, idx, 0)
							_, counts, nseq := c13PerSeq(call)
							if counts == nil {
								res.Violate("aggregate:per-sequence-mode-failed", "counting layer", c13Case{call, 0})
								continue
							}
							f := float64(k) / float64(N)
							for _, t := range []float64{f, math.Nextafter(f, 2), math.Nextafter(f, -1)} {
								c13Check(c13Case{call, t}, counts, nseq, res)
								res.States++
							}
						}
					}
				}
			case "cli":
				k := 0
				seqsOver(6, 3, func(idx []int) {
					k++
					if k%7 != engine.Seed()%7 {
						return
					}
					for _, cmd := range []string{"snps", "variants", "samvariants"} {
						base := build(cmd, idx, k)
						_, counts, nseq := c13PerSeq(base)
						ths := []float64{0.5, 0, 1}
						if counts != nil && (k/7)%2 == 0 {
							// every occurring frequency, passed through the flag parser as text
							for _, n := range counts {
								ths = append(ths, float64(n)/float64(nseq))
							}
							ths = append(ths, 0.2, 0.6)
						}
						seen := map[float64]bool{}
						for _, th := range ths {
							if seen[th] {
								continue
							}
							seen[th] = true
							call := base
							call.Aggregate, call.Threshold = true, th
							ob, _ := call.CLI(nil, 0)
							oc := call.Canon()
							res.Evals++
							res.Validated++
							if ob.String() != oc.String() {
								res.Violate("aggregate:binary-differs", fmt.Sprintf("--threshold %v: real binary and instrumented build disagree: %s", th, firstDiff(ob.Out, oc.Out)), c13Case{call, th})
							}
						}
					}
				})
			}
			return res
		},
	})
}

func parseCigar(s string) []CigOp {
	var out []CigOp
	n := 0
	for i := 0; i < len(s); i++ {
		if s[i] >= '0' && s[i] <= '9' {
			n = n*10 + int(s[i]-'0')
		} else {
			out = append(out, CigOp{s[i], n})
			n = 0
		}
	}
	return out
}
