package main

// C05 — indels are reported in reference coordinates whatever the alignment's columns.

import (
	"encoding/json"
	"fmt"
	"sort"
	"strings"

	"harness/engine"
)

// column kinds of a (reference, query) pair
const (
	kSame  = 's' // base / same base
	kOther = 'x' // base / other base
	kIns   = 'i' // ref gap / query base
	kDel   = 'd' // ref base / query gap
	kBoth  = 'g' // gap / gap
)

type c05Case struct {
	Pattern string `json:"pattern"` // one column kind per alignment column
	Form    string `json:"form"`    // "msa" or "sam"
}

const c05RefLetters = "CTAACGTACGTA" // reference base i (0-based) of the degapped reference; TAA at 2..4 is the annotated codon

func c05Other(b byte) byte {
	return map[byte]byte{'A': 'C', 'C': 'G', 'G': 'T', 'T': 'A'}[b]
}

// c05Rows renders the two alignment rows of a pattern.
func c05Rows(p string) (ref, q string) {
	var rb, qb []byte
	n := 0
	for i := 0; i < len(p); i++ {
		switch p[i] {
		case kSame:
			rb = append(rb, c05RefLetters[n])
			qb = append(qb, c05RefLetters[n])
			n++
		case kOther:
			rb = append(rb, c05RefLetters[n])
			qb = append(qb, c05Other(c05RefLetters[n]))
			n++
		case kDel:
			rb = append(rb, c05RefLetters[n])
			qb = append(qb, '-')
			n++
		case kIns:
			rb = append(rb, '-')
			qb = append(qb, 'G')
		case kBoth:
			rb = append(rb, '-')
			qb = append(qb, '-')
		}
	}
	return string(rb), string(qb)
}

func c05RefShape(p string) string {
	b := []byte(p)
	for i, k := range b {
		if k == kIns || k == kBoth {
			b[i] = '-'
		} else {
			b[i] = 'B'
		}
	}
	return string(b)
}

// c05Expect: the ins/del records the statement prescribes, sorted.
func c05Expect(p string) []string {
	var out []string
	nref := 0
	for i := 0; i < len(p); i++ {
		if p[i] == kSame || p[i] == kOther || p[i] == kDel {
			nref++
		}
	}
	// deletions: maximal runs of deleted reference positions (reference coordinates)
	pos := 0
	runStart, runLen := 0, 0
	flush := func() {
		if runLen > 0 && runStart != 1 && runStart+runLen-1 != nref {
			out = append(out, fmt.Sprintf("del:%d:%d", runStart, runLen))
		}
		runLen = 0
	}
	insAfter := map[int]int{}
	for i := 0; i < len(p); i++ {
		switch p[i] {
		case kDel:
			pos++
			if runLen == 0 {
				runStart = pos
			}
			runLen++
		case kSame, kOther:
			pos++
			flush()
		case kIns:
			insAfter[pos]++
		}
	}
	flush()
	for P, L := range insAfter {
		out = append(out, fmt.Sprintf("ins:%d:%d", P, L))
	}
	sort.Strings(out)
	return out
}

func indelsOf(list string) []string {
	var out []string
	if list == "" {
		return out
	}
	for _, m := range strings.Split(list, "|") {
		if strings.HasPrefix(m, "ins:") || strings.HasPrefix(m, "del:") {
			out = append(out, m)
		}
	}
	sort.Strings(out)
	return out
}

func c05Anno(nref int) string {
	genome := c05RefLetters[:nref]
	var feats []Feat
	if nref >= 4 {
		feats = []Feat{{Name: "orfA", Segs: []Seg{{2, 4}}}}
	}
	return renderGenbank(genome, feats)
}

func nrefOf(p string) int {
	n := 0
	for i := 0; i < len(p); i++ {
		if p[i] == kSame || p[i] == kOther || p[i] == kDel {
			n++
		}
	}
	return n
}

// parseVariantRows: "query,mutations" table -> name -> list
func parseVariantRows(out string) (map[string]string, []string, bool) {
	lines := strings.Split(strings.TrimSuffix(out, "\n"), "\n")
	if len(lines) == 0 || lines[0] != "query,mutations" {
		return nil, nil, false
	}
	m := map[string]string{}
	var order []string
	for _, l := range lines[1:] {
		i := strings.IndexByte(l, ',')
		if i < 0 {
			return nil, nil, false
		}
		m[l[:i]] = l[i+1:]
		order = append(order, l[:i])
	}
	return m, order, true
}

// c05RunMSA runs `variants` on one reference row with many query rows.
func c05RunMSA(refRow string, qrows []string) (Obs, map[string]string) {
	recs := []string{"ref", refRow}
	for i, q := range qrows {
		recs = append(recs, fmt.Sprintf("q%d", i), q)
	}
	nref := len(strings.ReplaceAll(refRow, "-", ""))
	call := Call{Cmd: "variants", Msa: fastaOf(recs...), RefID: "ref", Anno: c05Anno(nref), AnnoSuffix: "gb", Threads: 2}
	o := call.Canon()
	if o.Outcome != "returned" || o.HasErr {
		return o, nil
	}
	m, _, ok := parseVariantRows(o.Out)
	if !ok || len(m) != len(qrows) {
		o.Outcome = "unparseable"
		return o, nil
	}
	return o, m
}

func c05Cause(p string, got, want []string) string {
	gi, wi := 0, 0
	for _, g := range got {
		if strings.HasPrefix(g, "ins") {
			gi++
		}
	}
	for _, w := range want {
		if strings.HasPrefix(w, "ins") {
			wi++
		}
	}
	insWrong := strings.Join(filterPrefix(got, "ins"), "|") != strings.Join(filterPrefix(want, "ins"), "|")
	delWrong := strings.Join(filterPrefix(got, "del"), "|") != strings.Join(filterPrefix(want, "del"), "|")
	switch {
	case insWrong && !delWrong && gi == wi:
		return "indel:insertion-position"
	case insWrong && !delWrong:
		return "indel:insertion-count"
	case delWrong && !insWrong:
		return "indel:deletion"
	}
	return "indel:both"
}

func filterPrefix(l []string, p string) []string {
	var o []string
	for _, s := range l {
		if strings.HasPrefix(s, p) {
			o = append(o, s)
		}
	}
	return o
}

// c05Shape checks every query row of one reference shape (FASTA-MSA form), including the
// oracle-free both-gap relation against the reduced alignments.
func c05Shape(shape string, res *engine.JobResult) {
	// enumerate the query rows of this shape
	var pats []string
	var rec func(i int, cur []byte)
	rec = func(i int, cur []byte) {
		res.States++
		if i == len(shape) {
			pats = append(pats, string(cur))
			return
		}
		if shape[i] == 'B' {
			for _, k := range []byte{kSame, kOther, kDel} {
				rec(i+1, append(cur, k))
			}
		} else {
			for _, k := range []byte{kBoth, kIns} {
				rec(i+1, append(cur, k))
			}
		}
	}
	rec(0, nil)
	refRow, _ := c05Rows(pats[0])
	qrows := make([]string, len(pats))
	for i, p := range pats {
		_, qrows[i] = c05Rows(p)
	}
	o, got := c05RunMSA(refRow, qrows)
	res.Evals += len(pats)
	if got == nil {
		// attribute
		for _, p := range pats {
			c05Single(c05Case{p, "msa"}, res)
		}
		return
	}
	_ = o
	full := map[string]string{}
	for i, p := range pats {
		list := got[fmt.Sprintf("q%d", i)]
		full[p] = list
		want := c05Expect(p)
		g := indelsOf(list)
		if len(want) > 0 {
			res.Nontrivial++
		}
		if strings.Join(g, "|") != strings.Join(want, "|") {
			res.Violate(c05Cause(p, g, want), fmt.Sprintf("msa form: ref %q query %q: reported %v, expected %v (full list %q)", refRow, qrows[i], g, want, list), c05Case{p, "msa"})
		}
	}
	// both-gap relation: removing the columns that are gaps in both rows must not change the list
	groups := map[string][]string{} // reduced shape -> reduced patterns
	origOf := map[string][]string{}
	for _, p := range pats {
		if !strings.ContainsRune(p, kBoth) {
			continue
		}
		red := strings.ReplaceAll(p, string(kBoth), "")
		rs := c05RefShape(red)
		if _, dup := origOf[red]; !dup {
			groups[rs] = append(groups[rs], red)
		}
		origOf[red] = append(origOf[red], p)
	}
	for _, reds := range groups {
		rr, _ := c05Rows(reds[0])
		qr := make([]string, len(reds))
		for i, p := range reds {
			_, qr[i] = c05Rows(p)
		}
		_, g2 := c05RunMSA(rr, qr)
		res.Evals += len(reds)
		if g2 == nil {
			continue // failures of the reduced alignment are reported when its own shape is enumerated
		}
		for i, red := range reds {
			for _, p := range origOf[red] {
				if full[p] != g2[fmt.Sprintf("q%d", i)] {
					res.Violate("indel:both-gap-columns-change-list", fmt.Sprintf("pattern %s gives %q, the same pair without its gap/gap columns (%s) gives %q", p, full[p], red, g2[fmt.Sprintf("q%d", i)]), c05Case{p, "msa"})
				}
			}
		}
	}
}

// c05Single checks one pattern alone (replay / attribution), in MSA or SAM form.
func c05Single(c c05Case, res *engine.JobResult) {
	refRow, qRow := c05Rows(c.Pattern)
	want := c05Expect(c.Pattern)
	var o Obs
	var list string
	if c.Form == "sam" {
		o, list = c05RunSAM([]string{c.Pattern})
	} else {
		var m map[string]string
		o, m = c05RunMSA(refRow, []string{qRow})
		if m != nil {
			list = m["q0"]
		}
	}
	res.Evals++
	if o.Outcome != "returned" || o.HasErr {
		res.Violate("indel:"+o.Outcome+"-on-valid-input", fmt.Sprintf("%s form: ref %q query %q: %s %s", c.Form, refRow, qRow, o.String(), o.Detail), c)
		return
	}
	g := indelsOf(list)
	if strings.Join(g, "|") != strings.Join(want, "|") {
		res.Violate(c05Cause(c.Pattern, g, want), fmt.Sprintf("%s form: ref %q query %q: reported %v, expected %v", c.Form, refRow, qRow, g, want), c)
	}
}

func c05Cigar(p string) ([]CigOp, string) {
	var cols []alnCol
	var seq []byte
	_, q := c05Rows(p)
	for i := 0; i < len(p); i++ {
		switch p[i] {
		case kSame, kOther:
			cols = append(cols, 'M')
			seq = append(seq, q[i])
		case kIns:
			cols = append(cols, 'I')
			seq = append(seq, q[i])
		case kDel:
			cols = append(cols, 'D')
		}
	}
	return opsOf(cols), string(seq)
}

// c05RunSAM runs `sam variants` on patterns that all have the same number of reference bases;
// returns the list of the single pattern when len==1, else the joined table.
func c05RunSAM(pats []string) (Obs, string) {
	nref := nrefOf(pats[0])
	var recs []SamRec
	for i, p := range pats {
		cig, seq := c05Cigar(p)
		recs = append(recs, SamRec{Name: fmt.Sprintf("q%d", i), Pos: 1, Cigar: cig, Seq: seq})
	}
	call := Call{Cmd: "samvariants", Sam: samText(nref, recs), Ref: fastaOf("ref", c05RefLetters[:nref]), Anno: c05Anno(nref), AnnoSuffix: "gb", Threads: 2}
	o := call.Canon()
	if o.Outcome != "returned" || o.HasErr {
		return o, ""
	}
	if len(pats) == 1 {
		m, _, ok := parseVariantRows(o.Out)
		if !ok {
			o.Outcome = "unparseable"
			return o, ""
		}
		return o, m["q0"]
	}
	return o, o.Out
}

// patternOfRows turns a (reference row, query row) pair into column kinds (uncovered 'N' counts as a
// present base: neither insertion nor deletion).
func patternOfRows(refRow, qRow string) string {
	b := make([]byte, len(refRow))
	for i := range b {
		switch {
		case refRow[i] == '-' && qRow[i] == '-':
			b[i] = kBoth
		case refRow[i] == '-':
			b[i] = kIns
		case qRow[i] == '-':
			b[i] = kDel
		case upper(refRow[i]) == upper(qRow[i]):
			b[i] = kSame
		default:
			b[i] = kOther
		}
	}
	return string(b)
}

type c05MultiCase struct {
	Recs []SamRec `json:"records"`
}

// c05MultiSam: multi-record (supplementary) queries cut from every master alignment over M/I/D, as in
// C02 layer B, through `sam variants`: the ins:/del: records must be those of the union alignment.
func c05MultiSam(shard, nshard int, res *engine.JobResult) {
	anno := renderGenbank(c02RefB, nil)
	var recs []SamRec
	nq, bi := 0, 0
	check := func(rs []SamRec, attribute bool) {
		call := Call{Cmd: "samvariants", Sam: samText(len(c02RefB), rs), Ref: fastaOf("ref", c02RefB), Anno: anno, AnnoSuffix: "gb", Threads: 1}
		o := call.Canon()
		groups := groupRecords(rs)
		res.Evals += len(groups)
		var m map[string]string
		if o.Outcome == "returned" && !o.HasErr {
			m, _, _ = parseVariantRows(o.Out)
		}
		if m == nil || len(m) != len(groups) {
			if attribute && len(groups) > 1 {
				return
			}
			res.Violate("indel:multi-record-"+o.Outcome, fmt.Sprintf("sam variants fails on %s: %s %s", describeRecs(rs), o.String(), o.Detail), c05MultiCase{rs})
			return
		}
		for _, g := range groups {
			rr, qr, _ := pairRows(g, c02RefB, false)
			want := c05Expect(patternOfRows(rr, qr))
			got := indelsOf(m[g.Name])
			if len(want) > 0 {
				res.Nontrivial++
			}
			if strings.Join(got, "|") != strings.Join(want, "|") {
				res.Violate("indel:multi-record-query", fmt.Sprintf("sam variants, query %s (%s) on reference %s: reported %v, the union alignment %q / %q has %v", g.Name, describeRecs(g.Recs), c02RefB, got, rr, qr, want), c05MultiCase{g.Recs})
			}
		}
	}
	flush := func() {
		if nq == 0 {
			return
		}
		if bi%nshard == shard {
			check(recs, true)
			res.States += nq
		}
		recs, nq = nil, 0
		bi++
	}
	c02Cuts("quick", func(rs []SamRec, kind string) {
		recs = append(recs, rs...)
		nq++
		if nq == 32 {
			flush()
		}
	})
	flush()
}

// c05SamLayer: every pattern without gap/gap columns and with at least one query base, as a
// single-record SAM, grouped by number of reference bases.
func c05SamLayer(maxW int, shard, nshard int, res *engine.JobResult) {
	byN := map[int][]string{}
	var rec func(cur []byte)
	rec = func(cur []byte) {
		if len(cur) > 0 {
			p := string(cur)
			if nrefOf(p) >= 1 && strings.ContainsAny(p, "sx") {
				byN[nrefOf(p)] = append(byN[nrefOf(p)], p)
			}
		}
		if len(cur) == maxW {
			return
		}
		for _, k := range []byte{kSame, kOther, kIns, kDel} {
			rec(append(cur, k))
		}
	}
	rec(nil)
	bi := 0
	for n := 1; n <= maxW; n++ {
		ps := byN[n]
		for b0 := 0; b0 < len(ps); b0 += 64 {
			bi++
			if bi%nshard != shard {
				continue
			}
			e := b0 + 64
			if e > len(ps) {
				e = len(ps)
			}
			batch := ps[b0:e]
			o, table := c05RunSAM(append([]string{}, batch...))
			res.Evals += len(batch)
			res.States += len(batch)
			var m map[string]string
			if len(batch) == 1 {
				m = map[string]string{"q0": table}
			} else if o.Outcome == "returned" && !o.HasErr {
				m, _, _ = parseVariantRows(table)
			}
			if m == nil || len(m) != len(batch) {
				for _, p := range batch {
					c05Single(c05Case{p, "sam"}, res)
				}
				continue
			}
			for i, p := range batch {
				want := c05Expect(p)
				g := indelsOf(m[fmt.Sprintf("q%d", i)])
				if len(want) > 0 {
					res.Nontrivial++
				}
				if strings.Join(g, "|") != strings.Join(want, "|") {
					rr, qr := c05Rows(p)
					res.Violate(c05Cause(p, g, want), fmt.Sprintf("sam form (%s): ref %q query %q: reported %v, expected %v", cigarString(recsCigar(p)), rr, qr, g, want), c05Case{p, "sam"})
				}
			}
		}
	}
}

func recsCigar(p string) []CigOp { c, _ := c05Cigar(p); return c }

func c05Shapes(maxW int) []string {
	var out []string
	for w := 1; w <= maxW; w++ {
		for v := 0; v < 1<<w; v++ {
			b := make([]byte, w)
			nb := 0
			for i := 0; i < w; i++ {
				if v>>i&1 == 1 {
					b[i] = 'B'
					nb++
				} else {
					b[i] = '-'
				}
			}
			if nb >= 1 {
				out = append(out, string(b))
			}
		}
	}
	return out
}

func init() {
	maxW := func(tier string) int {
		if tier == "thorough" {
			return 9
		}
		return 7
	}
	register(&Prop{
		ID:    "C05",
		Level: "model_checking",
		Rule: "bounded-exhaustive enumeration of alignment column patterns against a reference-coordinate indel model: every sequence of W<=7 (thorough 9) columns over {base/same, base/other, ref-gap/base, base/gap, gap/gap} with >=1 reference base, through `variants` (FASTA-MSA, all query rows of one reference row per call, a one-codon CDS annotated at bases 2..4) and, for patterns without gap/gap columns, through `sam variants` as a single-record SAM; every 2-record (supplementary) query cut from every master alignment over M/I/D with <=4 operators (adjacent, separated, overlapping; both clip styles and file orders) through `sam variants`; " +
			"plus the oracle-free relation that deleting the gap/gap columns of a pair leaves its whole mutation list unchanged. A case is one (reference row, query row) pair; non-trivial = at least one ins/del record expected; each generated once",
		Assumptions: []string{
			"oracle: deletions = maximal runs of deleted reference positions, not reported when they contain reference base 1 or the last base; insertions = one record per reference gap between bases P and P+1 (P=0..L)",
			"only ins:/del: records are compared with the oracle; nuc:/aa: records take part in the both-gap relation only (C04 judges them)",
			"each call runs on the canonical schedule of the controlled scheduler",
		},
		Bounds: func(tier string) map[string]interface{} {
			return map[string]interface{}{"max_columns": maxW(tier), "sam_form_max_columns": maxW(tier) - 1}
		},
		Plan: func(tier string) ([]string, *engine.JobResult) {
			var jobs []string
			shapes := c05Shapes(maxW(tier))
			// biggest shapes first
			sort.SliceStable(shapes, func(i, j int) bool { return len(shapes[i]) > len(shapes[j]) })
			per := 8
			for i := 0; i < len(shapes); i += per {
				e := i + per
				if e > len(shapes) {
					e = len(shapes)
				}
				jobs = append(jobs, "shapes:"+strings.Join(shapes[i:e], ","))
			}
			for s := 0; s < 16; s++ {
				jobs = append(jobs, fmt.Sprintf("sam:%d/16", s))
				jobs = append(jobs, fmt.Sprintf("multi:%d/16", s))
			}
			jobs = append(jobs, "cli")
			return jobs, nil
		},
		Exec: func(tier, job string) *engine.JobResult {
			res := &engine.JobResult{}
			defer func() { res.Transitions = res.States }()
			switch {
			case strings.HasPrefix(job, "case:"):
				var mc c05MultiCase
				if err := json.Unmarshal([]byte(job[5:]), &mc); err == nil && len(mc.Recs) > 0 {
					g := groupRecords(mc.Recs)[0]
					call := Call{Cmd: "samvariants", Sam: samText(len(c02RefB), mc.Recs), Ref: fastaOf("ref", c02RefB), Anno: renderGenbank(c02RefB, nil), AnnoSuffix: "gb", Threads: 1}
					o := call.Canon()
					m, _, _ := parseVariantRows(o.Out)
					rr, qr, _ := pairRows(g, c02RefB, false)
					want := c05Expect(patternOfRows(rr, qr))
					if got := indelsOf(m[g.Name]); strings.Join(got, "|") != strings.Join(want, "|") {
						res.Violate("indel:multi-record-query", fmt.Sprintf("reported %v expected %v", got, want), mc)
					}
					res.Evals++
					return res
				}
				var c c05Case
				mustJSON(job[5:], &c)
				c05Single(c, res)
			case strings.HasPrefix(job, "shapes:"):
				for _, s := range strings.Split(job[7:], ",") {
					c05Shape(s, res)
				}
				res.Sample(c05Case{"sxidg", "msa"})
			case strings.HasPrefix(job, "multi:"):
				var s, n int
				fmt.Sscanf(job, "multi:%d/%d", &s, &n)
				c05MultiSam(s, n, res)
			case strings.HasPrefix(job, "sam:"):
				var s, n int
				fmt.Sscanf(job, "sam:%d/%d", &s, &n)
				c05SamLayer(maxW(tier)-1, s, n, res)
			case job == "cli":
				// binding through the real binary: all patterns of width 5
				for _, shape := range c05Shapes(5) {
					if len(shape) != 5 {
						continue
					}
					var pats []string
					var rec func(i int, cur []byte)
					rec = func(i int, cur []byte) {
						if i == len(shape) {
							pats = append(pats, string(cur))
							return
						}
						if shape[i] == 'B' {
							for _, k := range []byte{kSame, kOther, kDel} {
								rec(i+1, append(cur, k))
							}
						} else {
							for _, k := range []byte{kBoth, kIns} {
								rec(i+1, append(cur, k))
							}
						}
					}
					rec(0, nil)
					refRow, _ := c05Rows(pats[0])
					recs := []string{"ref", refRow}
					for i, p := range pats {
						_, q := c05Rows(p)
						recs = append(recs, fmt.Sprintf("q%d", i), q)
					}
					call := Call{Cmd: "variants", Msa: fastaOf(recs...), RefID: "ref", Anno: c05Anno(nrefOf(pats[0])), AnnoSuffix: "gb", Threads: 2}
					ob, _ := call.CLI(nil, 0)
					res.Evals += len(pats)
					res.Validated += len(pats)
					m, _, ok := parseVariantRows(ob.Out)
					if ob.Outcome != "returned" || ob.HasErr || !ok {
						res.Violate("indel:binary-"+ob.Outcome, "real binary failed on reference row "+refRow+": "+ob.String()+ob.Detail, c05Case{pats[0], "msa"})
						continue
					}
					for i, p := range pats {
						want := c05Expect(p)
						g := indelsOf(m[fmt.Sprintf("q%d", i)])
						if strings.Join(g, "|") != strings.Join(want, "|") {
							res.Violate("indel:binary-differs", fmt.Sprintf("real binary: pattern %s reported %v expected %v", p, g, want), c05Case{p, "msa"})
						}
					}
					// the flag layer with a window: each bound alone and both (indels at positions 0 and L included)
					nref := nrefOf(pats[0])
					for _, w := range [][2]int{{0, nref}, {0, 1}, {1, 0}, {2, 0}, {1, nref}} {
						o := call
						o.Start, o.End = w[0], w[1]
						ow, _ := o.CLI(nil, 0)
						oi := o.Canon()
						res.Evals++
						res.Validated++
						if ow.String() != oi.String() {
							res.Violate("indel:binary-differs", fmt.Sprintf("real binary with --start %d --end %d (0 = not given) on reference row %s: %s; in-process: %s", w[0], w[1], refRow, firstDiff(ow.Out, oi.Out), oi.Err), c05Case{pats[0], "msa"})
						}
					}
				}
			}
			return res
		},
	})
}
