package main

// Reference model of the nucleotide alphabet and the standard genetic code, written from the IUPAC
// definitions; shares no table with gofasta.

import "strings"

const (
	bA = 1
	bC = 2
	bG = 4
	bT = 8
)

// iupacDef: each code and the bases it denotes, from the IUPAC nomenclature.
var iupacDef = map[byte]string{
	'A': "A", 'C': "C", 'G': "G", 'T': "T",
	'R': "AG", 'Y': "CT", 'S': "CG", 'W': "AT", 'K': "GT", 'M': "AC",
	'B': "CGT", 'D': "AGT", 'H': "ACT", 'V': "ACG", 'N': "ACGT",
}

const iupac15 = "ACGTRYSWKMBDHVN"
const alphabet17 = "ACGTRYSWKMBDHVN-?"

func baseBit(b byte) int {
	switch b {
	case 'A':
		return bA
	case 'C':
		return bC
	case 'G':
		return bG
	case 'T':
		return bT
	}
	return 0
}

// maskOf returns the set of bases a symbol denotes (either case). '-' and '?' denote any base, except
// that under hardGaps '-' denotes no base. ok=false for symbols outside the 17-symbol alphabet.
func maskOf(c byte, hardGaps bool) (int, bool) {
	if c >= 'a' && c <= 'z' {
		c -= 32
	}
	if c == '?' {
		return 15, true
	}
	if c == '-' {
		if hardGaps {
			return 0, true
		}
		return 15, true
	}
	d, ok := iupacDef[c]
	if !ok {
		return 0, false
	}
	m := 0
	for i := 0; i < len(d); i++ {
		m |= baseBit(d[i])
	}
	return m, true
}

func upper(c byte) byte {
	if c >= 'a' && c <= 'z' {
		return c - 32
	}
	return c
}

// isACGT reports whether c is an unambiguous base (either case).
func isACGT(c byte) bool {
	c = upper(c)
	return c == 'A' || c == 'C' || c == 'G' || c == 'T'
}

// symbolOfMask is the IUPAC code denoting exactly the set m (1..15).
func symbolOfMask(m int) byte {
	for i := 0; i < len(iupac15); i++ {
		if mm, _ := maskOf(iupac15[i], false); mm == m {
			return iupac15[i]
		}
	}
	return 0
}

// complementMask complements each base of the set (A<->T, C<->G).
func complementMask(m int) int {
	r := 0
	if m&bA != 0 {
		r |= bT
	}
	if m&bT != 0 {
		r |= bA
	}
	if m&bC != 0 {
		r |= bG
	}
	if m&bG != 0 {
		r |= bC
	}
	return r
}

// Standard genetic code (NCBI translation table 1), in the classic TCAG order.
const codeAAs = "FFLLSSSSYY**CC*WLLLLPPPPHHQQRRRRIIIMTTTTNNKKSSRRVVVVAAAADDEEGGGG"
const codeOrder = "TCAG"

func translateCodonACGT(c string) byte {
	i := strings.IndexByte(codeOrder, c[0])
	j := strings.IndexByte(codeOrder, c[1])
	k := strings.IndexByte(codeOrder, c[2])
	return codeAAs[i*16+j*4+k]
}

// translateAmbig returns the amino acid every A/C/G/T expansion of the IUPAC codon agrees on, or 0
// if the expansions disagree or the codon contains a symbol that is not one of the 15 IUPAC codes.
func translateAmbig(codon string) byte {
	var sets [3]string
	for i := 0; i < 3; i++ {
		d, ok := iupacDef[upper(codon[i])]
		if !ok {
			return 0
		}
		sets[i] = d
	}
	var aa byte
	for _, a := range []byte(sets[0]) {
		for _, b := range []byte(sets[1]) {
			for _, c := range []byte(sets[2]) {
				x := translateCodonACGT(string([]byte{a, b, c}))
				if aa == 0 {
					aa = x
				} else if aa != x {
					return 0
				}
			}
		}
	}
	return aa
}

func complementBase(c byte) byte {
	m, ok := maskOf(c, false)
	if !ok || c == '-' || c == '?' {
		return c
	}
	return symbolOfMask(complementMask(m))
}

func revcompStr(s string) string {
	b := make([]byte, len(s))
	for i := 0; i < len(s); i++ {
		b[len(s)-1-i] = complementBase(upper(s[i]))
	}
	return string(b)
}
