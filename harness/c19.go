package main

// C19 — a failed output write is never reported as success.
// Fault enumeration (every k-th Write, one-shot and persistent) under Engine S, plus byte-granular
// RLIMIT_FSIZE faults on the real binary.

import (
	"encoding/json"
	"fmt"
	"io"
	"os"
	"path/filepath"
	"strings"
	"time"

	"harness/engine"
)

// c19Bases: the fault-free scenarios (every entry point that takes an io.Writer).
func c19Bases() []Scenario {
	var out []Scenario
	for _, s := range c12Scenarios(2, 2) {
		if s.Call.Cmd == "topa" || s.Family == "topranking-push" {
			continue
		}
		out = append(out, s)
	}
	out = append(out, c12CSVScenarios(2)...)
	// every branch of the closest writers: measure x {plain, -n, -n --table, -d --table}
	tq := fastaOf("qa", "ACGTACGTAAAA", "qb", "ACGTACGTAACA")
	tt := fastaOf("t0", "ACGTACGTAAAC", "t1", "ACGTACGTAAGA", "t2", "ACGTACGTAACA")
	for _, m := range []string{"raw", "snp", "tn93"} {
		for _, v := range []Call{{}, {N: 2}, {N: 2, Table: true}, {HasDist: true, MaxDist: 1, Table: true}} {
			c := v
			c.Cmd, c.Query, c.Target, c.Measure, c.Threads, c.NCPU = "closest", tq, tt, m, 2, 2
			out = append(out, Scenario{Name: fmt.Sprintf("closest-%s-n%d-table%v-d%v/n2/t2", m, c.N, c.Table, c.HasDist), Family: "closest", Call: c})
		}
	}
	return out
}

func c19Mode(tier string) string {
	if tier == "thorough" {
		return "P2M1"
	}
	return "P1M0"
}

// c19Scenarios: every base scenario x every write index k x {one-shot, persistent}.
func c19Scenarios(tier string) []Scenario {
	var out []Scenario
	for _, b := range c19Bases() {
		var cw *countWriter
		_, o := b.Call.CtlW(nil, func(w io.Writer) io.Writer { cw = &countWriter{w: w}; return cw })
		if o.Outcome != "returned" || o.HasErr {
			engine.EngineError("fault-free run of %s failed: %s", b.Name, o.String())
		}
		for k := 1; k <= cw.n; k++ {
			for _, persist := range []bool{false, true} {
				if persist && k == cw.n {
					continue // identical to the one-shot fault
				}
				s := b
				s.FaultK, s.Persist = k, persist
				s.Name = fmt.Sprintf("%s/write%d-of-%d/persist=%v", b.Name, k, cw.n, persist)
				s.Mode = c19Mode(tier)
				out = append(out, s)
			}
		}
	}
	// operation history: an earlier call in the same process whose output was refused, then the fault on the
	// first write of this call (an error must be reported every time, not only the first time in a process)
	for _, b := range c19Bases() {
		s := b
		s.Call.PriorFailedCall = true
		s.FaultK, s.Persist = 1, true
		s.Name = fmt.Sprintf("%s/after-a-failed-call/write1/persist=true", b.Name)
		s.Mode = "D1M0" // (goroutines the failed call left behind are still there: delay-bounded)
		out = append(out, s)
	}
	// long inputs (beyond the channel buffers): faults at the first, every 10th and the last write,
	// explored with at most one non-default scheduling choice
	for _, b := range c12BigScenarios() {
		var cw *countWriter
		_, o := b.Call.CtlW(nil, func(w io.Writer) io.Writer { cw = &countWriter{w: w}; return cw })
		if o.Outcome != "returned" || o.HasErr {
			engine.EngineError("fault-free run of %s failed: %s", b.Name, o.String())
		}
		for k := 1; k <= cw.n; k++ {
			if !(k == 1 || k == cw.n || k%10 == 0) {
				continue
			}
			for _, persist := range []bool{false, true} {
				s := b
				s.FaultK, s.Persist = k, persist
				s.Name = fmt.Sprintf("%s/write%d-of-%d/persist=%v", b.Name, k, cw.n, persist)
				s.Mode = "D1M0"
				out = append(out, s)
			}
		}
	}
	return out
}

func c19Writer(sc *Scenario) string {
	c := sc.Call
	switch c.Cmd {
	case "closest":
		switch {
		case c.N == 0 && !c.HasDist:
			return "writeClosest"
		case c.Table:
			return "writeClosestNTable"
		}
		return "writeClosestN"
	case "topranking":
		if c.Table {
			return "writeUpdownTable"
		}
		return "writeUpDownCatchment"
	case "toma":
		if c.Wrap != 0 {
			return "WriteWrapAlignment"
		}
		return "WriteAlignment"
	case "snps":
		if c.Aggregate {
			return "snps.aggregateWriteOutput"
		}
		return "snps.writeOutput"
	case "list":
		return "updown.writeOutput"
	case "variants", "samvariants":
		if c.Aggregate {
			return "AggregateWriteVariants"
		}
		return "WriteVariants"
	}
	return c.Cmd
}

func c19Judge(sc *Scenario, st *engine.Stats, res *engine.JobResult) {
	for obs, n := range st.Outcomes {
		fired := strings.HasPrefix(obs, "fired=true|")
		rest := obs[strings.Index(obs, "|")+1:]
		switch {
		case !fired:
			// the k-th write was never reached on this schedule (possible when an earlier error path ends the run): nothing to judge
			res.Count("executions_fault_not_reached", n)
		case strings.HasPrefix(rest, "returned|err=false"):
			kind := "row"
			if sc.FaultK == 1 {
				kind = "header"
			}
			res.Violate(c19Writer(sc)+":"+kind+"-write-error-ignored", fmt.Sprintf("scenario %s: in %d execution(s) write %d fails (persistent=%v) and the entry point still returns nil: %s", sc.Name, n, sc.FaultK, sc.Persist, obs), schedCase{Scenario: *sc, Trace: st.FirstTrace[obs], Obs: obs})
		case strings.HasPrefix(rest, "deadlock"):
			res.Violate(c19Writer(sc)+":hang-after-write-error", fmt.Sprintf("scenario %s: in %d execution(s) the command hangs after write %d fails: %s", sc.Name, n, sc.FaultK, obs), schedCase{Scenario: *sc, Trace: st.FirstTrace[obs], Obs: obs})
		case strings.HasPrefix(rest, "panic"):
			res.Violate(c19Writer(sc)+":panic-after-write-error", fmt.Sprintf("scenario %s: in %d execution(s) the command panics after write %d fails: %s", sc.Name, n, sc.FaultK, obs), schedCase{Scenario: *sc, Trace: st.FirstTrace[obs], Obs: obs})
		default:
			res.Nontrivial += n
		}
	}
}

// c19Fsize: process level. For every byte limit below the fault-free output size the real binary must
// exit non-zero.
func c19Fsize(tier string, shard, nshard int, res *engine.JobResult) {
	bases := c19Bases()
	// sam toPairAlign writes through os.Stdout / files directly: only reachable at process level
	for _, s := range c12Scenarios(2, 2) {
		if s.Call.Cmd == "topa" {
			bases = append(bases, s)
		}
	}
	idx := 0
	for _, b := range bases {
		c := b.Call
		args, stdin, outfile, cleanup := c.cliArgs(0)
		full := engine.CLI(stdin, 120*time.Second, nil, args...)
		var size int
		stdoutMode := outfile == ""
		if stdoutMode {
			size = len(full.Stdout)
		} else if fi, err := os.Stat(outfile); err == nil && fi.IsDir() {
			// directory of per-query files: limit applies per file; use the largest
			es, _ := os.ReadDir(outfile)
			for _, e := range es {
				if i, err := e.Info(); err == nil && int(i.Size()) > size {
					size = int(i.Size())
				}
			}
		} else if err == nil {
			size = int(fi.Size())
		}
		if full.Exit != 0 || size == 0 {
			cleanup()
			engine.EngineError("fault-free binary run of %s failed (exit %d, %d bytes): %s", b.Name, full.Exit, size, full.Stderr)
		}
		for n := 0; n < size; n++ {
			idx++
			if idx%nshard != shard {
				continue
			}
			if !stdoutMode {
				if fi, err := os.Stat(outfile); err == nil && fi.IsDir() {
					es, _ := os.ReadDir(outfile)
					for _, e := range es {
						os.Remove(filepath.Join(outfile, e.Name()))
					}
				} else {
					os.Remove(outfile)
				}
			}
			var r engine.CLIResult
			if stdoutMode {
				// stdout redirected to a regular file so that the size limit applies to it
				so := filepath.Join(engine.Scratch(), fmt.Sprintf("fsize_stdout_%d", idx))
				r = engine.CLIFsizeToFile(n, stdin, 120*time.Second, so, args...)
				os.Remove(so)
			} else {
				r = engine.CLIFsize(n, stdin, 120*time.Second, args...)
			}
			res.Evals++
			res.Validated++
			res.States++
			if r.TimedOut {
				res.Violate(c19Writer(&b)+":binary-hangs-on-write-error", fmt.Sprintf("%s: real binary hangs with RLIMIT_FSIZE=%d of %d bytes", b.Name, n, size), map[string]interface{}{"scenario": b, "fsize": n})
				continue
			}
			if r.Exit == 0 {
				res.Violate(c19Writer(&b)+":binary-exit-0-with-truncated-output", fmt.Sprintf("%s: real binary exits 0 although only %d of %d output bytes could be written (RLIMIT_FSIZE)", b.Name, n, size), map[string]interface{}{"scenario": b, "fsize": n})
			} else {
				res.Nontrivial++
			}
		}
		cleanup()
	}
}

func init() {
	var scens []Scenario
	get := func(tier string) []Scenario {
		if scens == nil {
			scens = c19Scenarios(tier)
		}
		return scens
	}
	register(&Prop{
		ID:    "C19",
		Level: "fault_enumeration",
		Rule: "for every entry point that takes an io.Writer (toMultiAlign +-wrap, sam variants +-aggregate, variants GenBank/GFF +-aggregate / stdin, snps +-aggregate, updown list, topranking list/table fasta+csv, closest, closest -n list/table) on a 2-record input with 2 workers: a Write failure injected at the k-th call for EVERY k in 1..W (W = writes of the fault-free run), one-shot and persistent, each explored under every schedule with <=1 (thorough <=2) preemptions by the controlled scheduler; outcome returned(nil), deadlock or panic after the fault fired = violation; the same for 60-record inputs (beyond the channel buffers) with the fault at the first, every 10th and the last write under <=1 non-default scheduling choice. Process level: the real binary under RLIMIT_FSIZE=n for EVERY n below the fault-free output size, for every command incl. sam toPairAlign (stdout redirected to a file, and the output directory): exit status 0 = violation. " +
			"A case is one execution (fault position x mode x schedule) or one (command, byte limit); non-trivial = the fault fired and an error was returned; each generated once",
		Assumptions: []string{
			"a write failure is modelled as Write returning (0, err); short writes with nil error are outside io.Writer's contract",
			"schedules beyond the preemption bound are not explored (C12's unbounded runs cover the fault-free pipelines)",
		},
		Bounds: func(tier string) map[string]interface{} {
			return map[string]interface{}{"mode": c19Mode(tier), "fault_scenarios": len(get(tier)), "entry_points": len(c19Bases())}
		},
		Plan: func(tier string) ([]string, *engine.JobResult) {
			jobs, pre := planSched(get(tier), 1, c19Judge)
			for s := 0; s < 16; s++ {
				jobs = append(jobs, fmt.Sprintf("fsize:%d/16", s))
			}
			if len(get(tier)) > 0 {
				pre.Sample(map[string]interface{}{"scenario": get(tier)[0].Name, "fault_at_write": get(tier)[0].FaultK})
			}
			return jobs, pre
		},
		Exec: func(tier, job string) *engine.JobResult {
			if strings.HasPrefix(job, "case:") {
				res := &engine.JobResult{Evals: 1}
				var c schedCase
				if err := json.Unmarshal([]byte(job[5:]), &c); err != nil || c.Scenario.Name == "" {
					var m struct {
						Scenario Scenario `json:"scenario"`
						Fsize    int      `json:"fsize"`
					}
					mustJSON(job[5:], &m)
					args, stdin, outfile, cleanup := m.Scenario.Call.cliArgs(0)
					defer cleanup()
					var r engine.CLIResult
					if outfile == "" {
						so := filepath.Join(engine.Scratch(), "fsize_stdout_replay")
						r = engine.CLIFsizeToFile(m.Fsize, stdin, 120*time.Second, so, args...)
					} else {
						r = engine.CLIFsize(m.Fsize, stdin, 120*time.Second, args...)
					}
					if r.Exit == 0 {
						res.Violate("replayed:binary-exit-0-with-truncated-output", fmt.Sprintf("exit 0 with RLIMIT_FSIZE=%d", m.Fsize), m)
					}
					return res
				}
				obs := replayCase(&c)
				if strings.HasPrefix(obs, "fired=true|") && !strings.Contains(obs, "|returned|err=true") {
					res.Violate("replayed:write-error-not-reported", obs, c)
				}
				return res
			}
			if strings.HasPrefix(job, "fsize:") {
				res := &engine.JobResult{}
				var s, n int
				fmt.Sscanf(job, "fsize:%d/%d", &s, &n)
				c19Fsize(tier, s, n, res)
				res.Transitions = res.States
				return res
			}
			return execSched(get(tier), job, c19Judge)
		},
	})
}
