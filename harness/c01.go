package main

// C01 — sam toMultiAlign projects every query onto reference coordinates exactly.

import (
	"encoding/json"
	"fmt"
	"strings"

	"harness/engine"
)

type c01Case struct {
	L       int      `json:"reflen"`
	Recs    []SamRec `json:"records"`
	Pad     bool     `json:"pad,omitempty"`
	Start   int      `json:"start,omitempty"`
	End     int      `json:"end,omitempty"`
	Wrap    int      `json:"wrap,omitempty"`
	Threads int      `json:"threads,omitempty"`
}

type fastaRec struct {
	Header string
	Seq    string
	Widths []int
}

// parseFasta splits FASTA text into records, remembering the sequence line widths.
func parseFasta(s string) ([]fastaRec, bool) {
	var out []fastaRec
	if s == "" {
		return nil, true
	}
	if !strings.HasSuffix(s, "\n") {
		return nil, false
	}
	for _, ln := range strings.Split(strings.TrimSuffix(s, "\n"), "\n") {
		if strings.HasPrefix(ln, ">") {
			out = append(out, fastaRec{Header: ln[1:]})
			continue
		}
		if len(out) == 0 {
			return nil, false
		}
		r := &out[len(out)-1]
		r.Seq += ln
		r.Widths = append(r.Widths, len(ln))
	}
	return out, true
}

func wrapOK(widths []int, total, wrap int) bool {
	if wrap <= 0 {
		return len(widths) == 1 && widths[0] == total || total == 0
	}
	for i, w := range widths {
		if i < len(widths)-1 && w != wrap {
			return false
		}
		if i == len(widths)-1 && (w > wrap || w == 0) {
			return false
		}
	}
	return true
}

func (c c01Case) call() Call {
	t := c.Threads
	if t == 0 {
		t = 1
	}
	return Call{Cmd: "toma", Sam: samText(c.L, c.Recs), Pad: c.Pad, Start: c.Start, End: c.End, Wrap: c.Wrap, Threads: t}
}

// c01Expected: ids and rows the statement prescribes; judged[i]=false when group i has no aligned base.
func c01Expected(c c01Case) (names []string, rows []string, judged []bool) {
	for _, g := range groupRecords(c.Recs) {
		row, ok := tomaRow(g, c.L, c.Pad)
		names = append(names, g.Name)
		rows = append(rows, tomaWindow(row, c.Start, c.End, c.Pad))
		judged = append(judged, ok)
	}
	return
}

func c01Cause(c c01Case, got, want string) string {
	if c.Start != 0 || c.End != 0 {
		return "toma:window"
	}
	multi := false
	for _, g := range groupRecords(c.Recs) {
		if len(g.Recs) > 1 {
			multi = true
		}
	}
	if multi {
		return "toma:multi-record-merge"
	}
	if len(got) != len(want) {
		return "toma:row-length"
	}
	return "toma:projection"
}

// c01Check runs one file; attribute=true re-runs failing groups alone to produce a minimal case.
func c01Check(c c01Case, res *engine.JobResult, attribute bool) {
	names, rows, judged := c01Expected(c)
	res.Evals += len(names)
	call := c.call()
	o := call.Canon()
	single := func() {
		for _, g := range groupRecords(c.Recs) {
			cc := c
			cc.Recs = g.Recs
			c01Check(cc, res, false)
		}
	}
	if len(names) == 0 {
		// nothing contributes: any outcome but a crash/hang is acceptable (the statement is silent)
		if o.Outcome != "returned" {
			res.Violate("toma:"+o.Outcome+"-no-contributing-record", "crash or hang on a file whose records are all skipped: "+o.Detail, c)
		}
		return
	}
	if o.Outcome != "returned" || o.HasErr {
		if attribute && len(names) > 1 {
			single()
			return
		}
		res.Violate("toma:"+o.Outcome+"-on-valid-input", fmt.Sprintf("valid SAM not converted: %s %s", o.String(), o.Detail), c)
		return
	}
	recs, ok := parseFasta(o.Out)
	if !ok || len(recs) != len(names) {
		if attribute && len(names) > 1 {
			single()
		}
		res.Violate("toma:record-count", fmt.Sprintf("expected %d records %v, got %d: %q", len(names), names, len(recs), o.Out), c)
		return
	}
	for i := range names {
		if recs[i].Header != names[i] {
			res.Violate("toma:record-order", fmt.Sprintf("record %d is %q, expected %q", i, recs[i].Header, names[i]), c)
			return
		}
		if !judged[i] {
			res.Count("unjudged_no_aligned_base", 1)
			continue
		}
		if recs[i].Seq != rows[i] {
			if attribute && len(names) > 1 {
				cc := c
				cc.Recs = groupRecords(c.Recs)[i].Recs
				before := len(res.Violations)
				c01Check(cc, res, false)
				if len(res.Violations) == before {
					res.Violate("toma:row-in-context", fmt.Sprintf("query %s: got %q want %q (only inside this file)", names[i], recs[i].Seq, rows[i]), c)
				}
				continue
			}
			res.Violate(c01Cause(c, recs[i].Seq, rows[i]), fmt.Sprintf("query %s (%s): got %q want %q", names[i], describeRecs(groupRecords(c.Recs)[i].Recs), recs[i].Seq, rows[i]), c)
			continue
		}
		if !wrapOK(recs[i].Widths, len(rows[i]), c.Wrap) {
			res.Violate("toma:wrap", fmt.Sprintf("query %s: line widths %v with --wrap %d", names[i], recs[i].Widths, c.Wrap), c)
		}
	}
}

func describeRecs(rs []SamRec) string {
	var p []string
	for _, r := range rs {
		p = append(p, fmt.Sprintf("%s@%d flag %d seq %s", cigarString(r.Cigar), r.Pos, r.Flag, r.Seq))
	}
	return strings.Join(p, " + ")
}

// recVariant is one (cigar, pos) placement.
type recVariant struct {
	Cigar []CigOp
	Pos   int
}

func c01Variants(maxOps int, lens []int, L int) (vs []recVariant, nodes int) {
	nodes = enumCigars(cigarOps, lens, maxOps, func(c []CigOp) {
		span := cigarRefLen(c)
		for pos := 1; pos-1+span <= L; pos++ {
			vs = append(vs, recVariant{c, pos})
		}
	})
	return
}

const c01L = 6

func c01LayerA(tier string, shard, nshard int, res *engine.JobResult) {
	maxOps := 3
	if tier == "thorough" {
		maxOps = 4
	}
	vs, nodes := c01Variants(maxOps, []int{1, 2}, c01L)
	if shard == 0 {
		res.States += nodes
	}
	const batch = 48
	for b0, bi := 0, 0; b0 < len(vs); b0, bi = b0+batch, bi+1 {
		if bi%nshard != shard {
			continue
		}
		end := b0 + batch
		if end > len(vs) {
			end = len(vs)
		}
		for _, pad := range []bool{false, true} {
			var recs []SamRec
			for i, v := range vs[b0:end] {
				recs = append(recs, SamRec{Name: fmt.Sprintf("q%d", b0+i), Flag: []int{0, 16, 2048, 2064}[(b0+i)%4], Pos: v.Pos, Cigar: v.Cigar, Seq: seqByQueryIndex(v.Cigar, (b0+i)%7)})
			}
			c := c01Case{L: c01L, Recs: recs, Pad: pad, Threads: 1 + bi%2}
			c01Check(c, res, true)
			res.States += len(recs)
			for _, r := range recs {
				if strings.Trim(cigarString(r.Cigar), "0123456789M") != "" {
					res.Nontrivial++
				}
			}
			if bi == 40 && !pad {
				res.Sample(c01Case{L: c01L, Recs: recs[:4]})
			}
		}
	}
}

func c01LayerB(tier string, shard, nshard int, res *engine.JobResult) {
	vs, _ := c01Variants(2, []int{1, 2}, c01L)
	const batch = 48
	var recs []SamRec
	nq := 0
	bi := 0
	flush := func() {
		if len(recs) == 0 {
			return
		}
		for _, pad := range []bool{false, true} {
			c01Check(c01Case{L: c01L, Recs: recs, Pad: pad}, res, true)
		}
		res.States += nq
		res.Nontrivial += 2 * nq
		recs = nil
		nq = 0
	}
	idx := 0
	for i, a := range vs {
		for j, b := range vs {
			for mode := 0; mode < 2; mode++ {
				idx++
				if (idx/batch)%nshard != shard {
					continue
				}
				name := fmt.Sprintf("p%d_%d_%d", i, j, mode)
				var s1, s2 string
				if mode == 0 {
					s1, s2 = seqByRefPos(a.Cigar, a.Pos), seqByRefPos(b.Cigar, b.Pos)
				} else {
					s1, s2 = seqByQueryIndex(a.Cigar, 0), seqByQueryIndex(b.Cigar, 5)
				}
				recs = append(recs, SamRec{Name: name, Flag: 0, Pos: a.Pos, Cigar: a.Cigar, Seq: s1}, SamRec{Name: name, Flag: 2048, Pos: b.Pos, Cigar: b.Cigar, Seq: s2})
				nq++
				if nq == batch {
					flush()
					bi++
				}
			}
		}
	}
	flush()
	if tier == "thorough" {
		// three records per query on the <=2-operator length-1 subset
		v1, _ := c01Variants(2, []int{1}, c01L)
		idx = 0
		for i, a := range v1 {
			for j, b := range v1 {
				for k, d := range v1 {
					idx++
					if (idx/batch)%nshard != shard {
						continue
					}
					name := fmt.Sprintf("t%d_%d_%d", i, j, k)
					recs = append(recs, SamRec{Name: name, Pos: a.Pos, Cigar: a.Cigar, Seq: seqByRefPos(a.Cigar, a.Pos)},
						SamRec{Name: name, Flag: 2048, Pos: b.Pos, Cigar: b.Cigar, Seq: seqByQueryIndex(b.Cigar, 3)},
						SamRec{Name: name, Flag: 2064, Pos: d.Pos, Cigar: d.Cigar, Seq: seqByRefPos(d.Cigar, d.Pos)})
					nq++
					if nq == batch {
						flush()
					}
				}
			}
		}
		flush()
	}
}

// c01LayerC: every stream of 2..n records over two query names x six flag classes, contributing
// records of one name contiguous.
func c01LayerC(tier string, shard, nshard int, res *engine.JobResult) {
	maxLen := 4
	if tier == "thorough" {
		maxLen = 5
	}
	flags := []int{0, 16, 2048, 4, 256, 260}
	names := []string{"qa", "qb"}
	idx := 0
	var rec func(cur []SamRec)
	rec = func(cur []SamRec) {
		if shard == 0 {
			res.States++
		}
		if len(cur) >= 2 {
			// domain: a name's contributing records are contiguous
			okDomain := true
			seen := map[string]bool{}
			last := ""
			for _, r := range cur {
				if !r.contributes() {
					continue
				}
				if r.Name != last && seen[r.Name] {
					okDomain = false
				}
				seen[r.Name] = true
				last = r.Name
			}
			idx++
			if okDomain && idx%nshard == shard {
				c := c01Case{L: c01L, Recs: cur, Pad: len(cur)%2 == 0}
				c01Check(c, res, false)
				res.Nontrivial++
				if idx == 700 {
					res.Sample(c)
				}
			}
		}
		if len(cur) == maxLen {
			return
		}
		for _, n := range names {
			for _, f := range flags {
				i := len(cur)
				cig := []CigOp{{'M', 2}}
				if i%2 == 1 {
					cig = []CigOp{{'M', 1}, {'D', 1}, {'M', 1}}
				}
				r := SamRec{Name: n, Flag: f, Pos: 1 + i%4, Cigar: cig, Seq: seqByQueryIndex(cig, i*3)}
				rec(append(append([]SamRec{}, cur...), r))
			}
		}
	}
	rec(nil)
}

// c01Files: representative multi-query files (one per operator-shape class) for the option layer.
func c01Files(n int) [][]SamRec {
	vs, _ := c01Variants(3, []int{1, 2}, c01L)
	seen := map[string]bool{}
	var picked []recVariant
	for _, v := range vs {
		shape := ""
		for _, o := range v.Cigar {
			shape += string(o.Op)
		}
		if seen[shape] {
			continue
		}
		seen[shape] = true
		picked = append(picked, v)
	}
	var files [][]SamRec
	for f := 0; f < n; f++ {
		var recs []SamRec
		for k := 0; k < 4; k++ {
			v := picked[(f*7+k*13)%len(picked)]
			name := fmt.Sprintf("q%d", k)
			recs = append(recs, SamRec{Name: name, Pos: v.Pos, Cigar: v.Cigar, Seq: seqByQueryIndex(v.Cigar, k)})
			if k == 1 || k == 3 {
				w := picked[(f*5+k*3+1)%len(picked)]
				recs = append(recs, SamRec{Name: name, Flag: 2048, Pos: w.Pos, Cigar: w.Cigar, Seq: seqByQueryIndex(w.Cigar, k+4)})
			}
		}
		files = append(files, recs)
	}
	return files
}

func c01LayerD(tier string, shard, nshard int, res *engine.JobResult) {
	nf := 16
	if tier == "thorough" {
		nf = 64
	}
	idx := 0
	for _, recs := range c01Files(nf) {
		for s := 0; s <= c01L; s++ {
			for e := 0; e <= c01L; e++ {
				if s != 0 && e != 0 && s > e {
					continue
				}
				for _, pad := range []bool{false, true} {
					for _, wrap := range []int{0, 1, 2, 3, c01L, c01L + 1} {
						idx++
						if idx%nshard != shard {
							continue
						}
						c := c01Case{L: c01L, Recs: recs, Pad: pad, Start: s, End: e, Wrap: wrap, Threads: 1 + idx%3}
						c01Check(c, res, false)
						res.States++
						res.Nontrivial++
					}
				}
			}
		}
	}
}

// c01CLI replays a slice of layer A and D through the real binary.
func c01CLI(tier string, shard, nshard int, res *engine.JobResult) {
	vs, _ := c01Variants(3, []int{1, 2}, c01L)
	const batch = 48
	step := 11
	for b0, bi := (engine.Seed()%step)*batch, 0; b0 < len(vs); b0, bi = b0+batch*step, bi+1 {
		if bi%nshard != shard {
			continue
		}
		end := b0 + batch
		if end > len(vs) {
			end = len(vs)
		}
		var recs []SamRec
		for i, v := range vs[b0:end] {
			recs = append(recs, SamRec{Name: fmt.Sprintf("q%d", b0+i), Pos: v.Pos, Cigar: v.Cigar, Seq: seqByQueryIndex(v.Cigar, i%7)})
		}
		for _, pad := range []bool{false, true} {
			c := c01Case{L: c01L, Recs: recs, Pad: pad, Threads: 2}
			c01BinCheck(c, res)
		}
	}
	for i, recs := range c01Files(16) {
		if i%nshard != shard {
			continue
		}
		for _, w := range [][3]int{{0, 0, 0}, {2, 5, 0}, {3, 0, 4}, {0, 4, 1}, {1, 6, 7}} {
			for _, pad := range []bool{false, true} {
				c01BinCheck(c01Case{L: c01L, Recs: recs, Pad: pad, Start: w[0], End: w[1], Wrap: w[2], Threads: 3}, res)
			}
		}
	}
}

func c01BinCheck(c c01Case, res *engine.JobResult) {
	names, rows, judged := c01Expected(c)
	call := c.call()
	o, _ := call.CLI(nil, 0)
	res.Evals += len(names)
	res.Validated += len(names)
	if o.Outcome != "returned" || o.HasErr {
		res.Violate("toma:binary-"+o.Outcome, "real binary failed: "+o.String()+o.Detail, c)
		return
	}
	recs, ok := parseFasta(o.Out)
	if !ok || len(recs) != len(names) {
		res.Violate("toma:binary-record-count", fmt.Sprintf("real binary wrote %d records, expected %d", len(recs), len(names)), c)
		return
	}
	for i := range names {
		if recs[i].Header != names[i] || (judged[i] && recs[i].Seq != rows[i]) || (judged[i] && !wrapOK(recs[i].Widths, len(rows[i]), c.Wrap)) {
			res.Violate("toma:binary-differs", fmt.Sprintf("real binary: record %d = %q %q (widths %v), expected %q %q", i, recs[i].Header, recs[i].Seq, recs[i].Widths, names[i], rows[i]), c)
			return
		}
	}
}

// ---- schedule layer: the --threads quantifier. The same projection must come out under every explored
// interleaving of the reader / workers / re-ordering writer, including those in which one worker is
// stalled while the others run far ahead (starvation family, 70 queries).

func c01SchedCases() []c01Case {
	mk := func(n, wrap int, pad bool) c01Case {
		var recs []SamRec
		for i := 0; i < n; i++ {
			cig := [][]CigOp{{{'M', 6}}, {{'M', 2}, {'D', 1}, {'M', 3}}, {{'S', 1}, {'M', 3}, {'I', 1}, {'M', 2}}, {{'M', 1}, {'N', 2}, {'M', 2}}}[i%4]
			recs = append(recs, SamRec{Name: fmt.Sprintf("q%02d", i), Pos: 1, Cigar: cig, Seq: seqByQueryIndex(cig, i)})
			if i%5 == 3 {
				recs = append(recs, SamRec{Name: fmt.Sprintf("q%02d", i), Flag: 2048, Pos: 5, Cigar: []CigOp{{'H', 2}, {'M', 2}}, Seq: seqByQueryIndex([]CigOp{{'M', 2}}, i+3)})
			}
		}
		return c01Case{L: c01L, Recs: recs, Pad: pad, Wrap: wrap, Threads: 2}
	}
	return []c01Case{mk(4, 0, false), mk(4, 4, true), mk(70, 0, false), mk(70, 5, false)}
}

func c01SchedScenarios() []Scenario {
	var out []Scenario
	for i, c := range c01SchedCases() {
		call := c.call()
		call.NCPU = 2
		mode := "D2M1"
		if len(c.Recs) > 20 {
			mode = "D1M1"
		}
		out = append(out, Scenario{Name: fmt.Sprintf("toma-sched-%d/records%d/wrap%d", i, len(c.Recs), c.Wrap), Family: "toma-schedule", Call: call, Mode: mode})
	}
	return out
}

func c01SchedJudge(sc *Scenario, st *engine.Stats, res *engine.JobResult) {
	var idx int
	fmt.Sscanf(sc.Name, "toma-sched-%d/", &idx)
	c := c01SchedCases()[idx]
	names, rows, _ := c01Expected(c)
	for obs, n := range st.Outcomes {
		ok := strings.HasPrefix(obs, "returned|err=false:|")
		if ok {
			var txt string
			fmt.Sscanf(strings.TrimPrefix(obs, "returned|err=false:|"), "%q", &txt)
			recs, okp := parseFasta(txt)
			ok = okp && len(recs) == len(names)
			for i := 0; ok && i < len(recs); i++ {
				ok = recs[i].Header == names[i] && recs[i].Seq == rows[i] && wrapOK(recs[i].Widths, len(rows[i]), c.Wrap)
			}
		}
		if !ok {
			res.Violate("toma:schedule-dependent-output", fmt.Sprintf("scenario %s: %d explored execution(s) do not produce the projection of every query in input order: %.400s", sc.Name, n, obs), schedCase{Scenario: *sc, Trace: st.FirstTrace[obs], Obs: obs})
		} else {
			res.Nontrivial += n
		}
	}
}

func init() {
	layers := map[string]func(string, int, int, *engine.JobResult){"A": c01LayerA, "B": c01LayerB, "C": c01LayerC, "D": c01LayerD, "CLI": c01CLI}
	register(&Prop{
		ID:    "C01",
		Level: "model_checking",
		Rule: "bounded-exhaustive enumeration against a reference projection model. A: every valid CIGAR over MIDNSHP=X (operator lengths 1,2; adjacent operators distinct; >=1 M/=/X) with <=3 (thorough <=4) operators at every POS on a length-6 reference, pad off/on, SEQ with a different letter at each query position; " +
			"B: every ordered pair of <=2-operator records of one query (agreeing and conflicting bases) (thorough: + every triple on the length-1 subset); C: every stream of 2..4 (thorough 5) records over two query names x flags {0,16,2048,4,256,260}; D: 16 (thorough 64) representative multi-query files x every window (each bound alone too) x pad x wrap {off,1,2,3,L,L+1} x threads 1..3; S (schedules): files of 4 and of 70 queries (some multi-record) with 2 workers under every execution with <=2 (70 queries: <=1) non-default scheduling choices plus the starvation family (each goroutine in turn only runs when nothing else can): every execution must produce the model's output. " +
			"A case is one query (group of records) in one option setting; non-trivial = its CIGARs contain an operator other than M, or several records, or an option is set; every case is generated once",
		Assumptions: []string{
			"CIGAR N (reference skip) counts as 'no coverage'",
			"queries without any aligned base are generated but only required not to crash (first/last aligned base undefined)",
			"a query's contributing records are contiguous in the file (skipped records may be interleaved), as aligners write them",
			"alignments running past the reference length are not generated",
			"each call runs on the canonical schedule of the controlled scheduler (C12 covers the others)",
		},
		Bounds: func(tier string) map[string]interface{} {
			return map[string]interface{}{"reference_length": c01L, "max_operators": map[string]int{"quick": 3, "thorough": 4}[tier], "operator_lengths": []int{1, 2}, "records_per_query": map[string]int{"quick": 2, "thorough": 3}[tier], "stream_length": map[string]int{"quick": 4, "thorough": 5}[tier]}
		},
		Plan: func(tier string) ([]string, *engine.JobResult) {
			var jobs []string
			n := map[string]int{"A": 16, "B": 64, "C": 16, "D": 16, "CLI": 8}
			if tier == "thorough" {
				n = map[string]int{"A": 64, "B": 256, "C": 64, "D": 64, "CLI": 8}
			}
			sjobs, pre := planSched(c01SchedScenarios(), 1, c01SchedJudge)
			jobs = append(jobs, sjobs...)
			for _, l := range []string{"A", "C", "D", "CLI", "B"} {
				for s := 0; s < n[l]; s++ {
					jobs = append(jobs, fmt.Sprintf("%s:%d/%d", l, s, n[l]))
				}
			}
			return jobs, pre
		},
		Exec: func(tier, job string) *engine.JobResult {
			res := &engine.JobResult{}
			defer func() { res.Transitions = res.States }()
			if strings.HasPrefix(job, "case:") {
				var scs schedCase
				if err := json.Unmarshal([]byte(job[5:]), &scs); err == nil && scs.Scenario.Name != "" {
					st := engine.NewStats()
					_, obs := scs.Scenario.execFn()(scs.Trace)
					st.Outcomes[obs] = 1
					st.FirstTrace[obs] = scs.Trace
					c01SchedJudge(&scs.Scenario, st, res)
					return res
				}
				var c c01Case
				mustJSON(job[5:], &c)
				c01Check(c, res, false)
				return res
			}
			if strings.HasPrefix(job, "{") {
				return execSched(c01SchedScenarios(), job, c01SchedJudge)
			}
			var l string
			var s, n int
			parts := strings.SplitN(job, ":", 2)
			l = parts[0]
			fmt.Sscanf(parts[1], "%d/%d", &s, &n)
			layers[l](tier, s, n, res)
			return res
		},
	})
}
