package main

// Schedule layers of the input-quantified properties (see sched.go: addSchedLayer). This file's
// init runs after the cNN.go files (Go initialises the files of a package in file-name order).

import "fmt"

func init() {
	gb := renderGenbank(g12, []Feat{{Name: "orfA", Segs: []Seg{{1, 9}}}, {Name: "orfB", Segs: []Seg{{4, 9}}}})
	gff := renderGFF(g12, []Feat{{Name: "orfA", Segs: []Seg{{1, 9}}}, {Name: "pepB", Segs: []Seg{{4, 6}}, GffType: "mature_protein_region_of_CDS"}}, true, true)
	msa := func(n int) string { return fastaOf(append([]string{"ref", g12}, mutated(g12, n)...)...) }
	samOf := func(n int) string {
		var recs []SamRec
		m := mutated(g12, n)
		for i := 0; i < n; i++ {
			cig := [][]CigOp{{{'M', 12}}, {{'M', 4}, {'I', 2}, {'M', 8}}, {{'M', 3}, {'D', 3}, {'M', 6}}}[i%3]
			seq := m[2*i+1]
			switch i % 3 {
			case 1:
				seq = seq[:4] + "GG" + seq[4:]
			case 2:
				seq = seq[:3] + seq[6:]
			}
			recs = append(recs, SamRec{Name: m[2*i], Pos: 1, Cigar: cig, Seq: seq})
		}
		return samText(12, recs)
	}
	add := func(id, prefix string, scens func() []Scenario) {
		if p := props[id]; p != nil {
			addSchedLayer(p, prefix, scens)
		}
	}
	add("C03", "snps", func() []Scenario {
		// 160 records: more than twice the NumCPU+50 buffer plus the workers
		return append(schedPair("snps", func(n int) Call { return Call{Cmd: "snps", Ref: fastaOf("ref", g12), Msa: fastaOf(mutated(g12, n)...)} }, 160),
			schedPair("snps-hardgaps", func(n int) Call { return Call{Cmd: "snps", Ref: fastaOf("ref", g12), Msa: fastaOf(mutated(g12, n)...), HardGaps: true} })...)
	})
	add("C10", "list", func() []Scenario {
		return schedPair("list", func(n int) Call { return Call{Cmd: "list", Ref: fastaOf("ref", g12), Msa: fastaOf(mutated("ATGNNATAA-CC", n)...)} }, 160)
	})
	add("C04", "variants", func() []Scenario {
		return append(schedPair("variants-gb", func(n int) Call { return Call{Cmd: "variants", Msa: msa(n), RefID: "ref", Anno: gb, AnnoSuffix: "gb", AppendSNP: true} }),
			schedPair("variants-gff", func(n int) Call { return Call{Cmd: "variants", Msa: msa(n), RefID: "ref", Anno: gff, AnnoSuffix: "gff"} })...)
	})
	add("C05", "indel", func() []Scenario {
		return append(schedPair("samvariants-indels", func(n int) Call { return Call{Cmd: "samvariants", Sam: samOf(n), Ref: fastaOf("ref", g12), Anno: gb, AnnoSuffix: "gb"} }),
			schedPair("variants-indels", func(n int) Call {
				recs := []string{"ref", "ATGA--AATAACCC"}
				for i := 0; i < n; i++ {
					recs = append(recs, fmt.Sprintf("s%02d", i), []string{"ATGA--AATAACCC", "ATGAGGAATAACCC", "ATG---AATAACCC", "ATGA-GAAT--CCC"}[i%4])
				}
				return Call{Cmd: "variants", Msa: fastaOf(recs...), RefID: "ref", Anno: gb, AnnoSuffix: "gb"}
			})...)
	})
	add("C11", "samvariants", func() []Scenario {
		return schedPair("samvariants-gff-annoref", func(n int) Call { return Call{Cmd: "samvariants", Sam: samOf(n), NoRefFile: true, Anno: gff, AnnoSuffix: "gff", AppendSNP: true} })
	})
	add("C13", "aggregate", func() []Scenario {
		return append(append(schedPair("snps-agg", func(n int) Call { return Call{Cmd: "snps", Ref: fastaOf("ref", g12), Msa: fastaOf(mutated(g12, n)...), Aggregate: true, Threshold: 0.01} }),
			schedPair("variants-agg", func(n int) Call { return Call{Cmd: "variants", Msa: msa(n), RefID: "ref", Anno: gb, AnnoSuffix: "gb", Aggregate: true} })...),
			schedPair("samvariants-agg", func(n int) Call { return Call{Cmd: "samvariants", Sam: samOf(n), Ref: fastaOf("ref", g12), Anno: gb, AnnoSuffix: "gb", Aggregate: true} })...)
	})
	targets := func(n int) string { return fastaOf(mutated("ACGTACGTAAAA", n)...) }
	add("C06", "closest", func() []Scenario {
		q := fastaOf("qa", "ACGTACGTAAAA", "qb", "ACGTACGTAACA")
		return append(append(schedPair("closest", func(n int) Call { return Call{Cmd: "closest", Query: q, Target: targets(n), Measure: "raw"} }),
			schedPair("closestn", func(n int) Call { return Call{Cmd: "closest", Query: q, Target: targets(n), Measure: "snp", N: 3} })...),
			schedPair("closestn-table", func(n int) Call { return Call{Cmd: "closest", Query: q, Target: targets(n), Measure: "tn93", HasDist: true, MaxDist: 0.5, Table: true} })...)
	})
	add("C07", "distance", func() []Scenario {
		q := fastaOf("qa", "ACGTACGTAAAA", "qb", "ACGTACGTAACA")
		return schedPair("closest-table-all", func(n int) Call { return Call{Cmd: "closest", Query: q, Target: targets(n), Measure: "tn93", N: n, Table: true} })
	})
	add("C08", "topranking", func() []Scenario {
		q := fastaOf("qa", "CCCAAAAAAAAA", "qb", "ACAAGAAAAAAA")
		mk := func(o Call) func(n int) Call {
			return func(n int) Call {
				o.Cmd, o.Query, o.Target, o.Ref, o.QType, o.TType = "topranking", q, fastaOf(mutated("CCAAAAAAAAAA", n)...), fastaOf("r", "AAAAAAAAAAAA"), "fasta", "fasta"
				return o
			}
		}
		return append(append(schedPair("topranking-size", mk(Call{SizeTotal: 6})), schedPair("topranking-push", mk(Call{DistPush: 2, Table: true}))...), schedPair("topranking-dist", mk(Call{DistAll: 2}))...)
	})
}
