package main

// Schedule layers of the input-quantified properties (see sched.go: addSchedLayer). This file's
// init runs after the cNN.go files (Go initialises the files of a package in file-name order).

import "fmt"

func init() {
	gb := renderGenbank(g12, []Feat{{Name: "orfA", Segs: []Seg{{1, 9}}}, {Name: "orfB", Segs: []Seg{{4, 9}}}})
	gff := renderGFF(g12, []Feat{{Name: "orfA", Segs: []Seg{{1, 9}}}, {Name: "pepB", Segs: []Seg{{4, 6}}, GffType: "mature_protein_region_of_CDS"}}, true, true)
	msa := func(n int) string { return fastaOf(append([]string{"ref", g12}, mutated(g12, n)...)...) }
	samOf := func(n int) string {
		var recs []SamRec
		m := mutated(g12, n)
		for i := 0; i < n; i++ {
			cig := [][]CigOp{{{'M', 12}}, {{'M', 4}, {'I', 2}, {'M', 8}}, {{'M', 3}, {'D', 3}, {'M', 6}}}[i%3]
			seq := m[2*i+1]
			switch i % 3 {
			case 1:
				seq = seq[:4] + "GG" + seq[4:]
			case 2:
				seq = seq[:3] + seq[6:]
			}
			recs = append(recs, SamRec{Name: m[2*i], Pos: 1, Cigar: cig, Seq: seq})
		}
		return samText(12, recs)
	}
	// the properties with schedule layers of their own get the race pass too
	for id, f := range map[string]func() []Scenario{"C01": c01SchedScenarios, "C02": c02SchedScenarios, "C09": func() []Scenario { return c09Scenarios("quick") }} {
		if p := props[id]; p != nil {
			addRacePass(p, f)
		}
	}
	add := func(id, prefix string, scens func() []Scenario) {
		if p := props[id]; p != nil {
			addSchedLayer(p, prefix, scens)
		}
	}
	add("C03", "snps", func() []Scenario {
		// 160 records: more than twice the NumCPU+50 buffer plus the workers
		return append(schedPair("snps", func(n int) Call { return Call{Cmd: "snps", Ref: fastaOf("ref", g12), Msa: fastaOf(mutated(g12, n)...)} }, 160),
			schedPair("snps-hardgaps", func(n int) Call { return Call{Cmd: "snps", Ref: fastaOf("ref", g12), Msa: fastaOf(mutated(g12, n)...), HardGaps: true} })...)
	})
	add("C10", "list", func() []Scenario {
		return schedPair("list", func(n int) Call { return Call{Cmd: "list", Ref: fastaOf("ref", g12), Msa: fastaOf(mutated("ATGNNATAA-CC", n)...)} }, 160)
	})
	add("C04", "variants", func() []Scenario {
		return append(schedPair("variants-gb", func(n int) Call { return Call{Cmd: "variants", Msa: msa(n), RefID: "ref", Anno: gb, AnnoSuffix: "gb", AppendSNP: true} }),
			append(schedPair("variants-gff", func(n int) Call { return Call{Cmd: "variants", Msa: msa(n), RefID: "ref", Anno: gff, AnnoSuffix: "gff"} }),
				// the reference record last in the alignment (the writer skips it after everything else)
				schedPair("variants-gb-reflast", func(n int) Call {
					return Call{Cmd: "variants", Msa: fastaOf(append(mutated(g12, n), "ref", g12)...), RefID: "ref", Anno: gb, AnnoSuffix: "gb"}
				})...)...)
	})
	add("C05", "indel", func() []Scenario {
		return append(schedPair("samvariants-indels", func(n int) Call { return Call{Cmd: "samvariants", Sam: samOf(n), Ref: fastaOf("ref", g12), Anno: gb, AnnoSuffix: "gb"} }),
			schedPair("variants-indels", func(n int) Call {
				recs := []string{"ref", "ATGA--AATAACCC"}
				for i := 0; i < n; i++ {
					recs = append(recs, fmt.Sprintf("s%02d", i), []string{"ATGA--AATAACCC", "ATGAGGAATAACCC", "ATG---AATAACCC", "ATGA-GAAT--CCC"}[i%4])
				}
				return Call{Cmd: "variants", Msa: fastaOf(recs...), RefID: "ref", Anno: gb, AnnoSuffix: "gb"}
			})...)
	})
	add("C15", "options", func() []Scenario {
		// the option paths under every schedule: alignment from stdin (reference first) with a window, windowed
		// and padded/wrapped toMultiAlign, windowed toPairAlign
		return append(append(append(schedPair("variants-stdin-window", func(n int) Call {
			return Call{Cmd: "variants", Msa: msa(n), RefID: "ref", Stdin: true, Anno: gb, AnnoSuffix: "gb", Start: 2, End: 9}
		}, 1, 2),
			schedPair("variants-stdin-agg", func(n int) Call {
				return Call{Cmd: "variants", Msa: msa(n), RefID: "ref", Stdin: true, Anno: gff, AnnoSuffix: "gff", Aggregate: true, End: 9}
			}, 1)...),
			schedPair("toma-window-pad-wrap", func(n int) Call { return Call{Cmd: "toma", Sam: samOf(n), Start: 3, End: 10, Pad: true, Wrap: 5} })...),
			schedPair("topa-window", func(n int) Call { return Call{Cmd: "topa", Sam: samOf(n), Ref: fastaOf("ref", g12), Start: 3, End: 10} })...)
	})
	add("C11", "samvariants", func() []Scenario {
		// the FASTA side of the relation as it is used in practice: the toPairAlign pair piped into `variants`
		pair := schedPair("variants-on-pair-stdin", func(n int) Call {
			return Call{Cmd: "variants", Msa: fastaOf("ref", "ATGA--AATAACCC", "q0", "CTGAGGAAT-ACCC"), RefID: "ref", Stdin: true, Anno: gff, AnnoSuffix: "gff", AppendSNP: true}
		})[:1]
		pair[0].Mode = "U"
		return append(pair, schedPair("samvariants-gff-annoref", func(n int) Call { return Call{Cmd: "samvariants", Sam: samOf(n), NoRefFile: true, Anno: gff, AnnoSuffix: "gff", AppendSNP: true} })...)
	})
	add("C13", "aggregate", func() []Scenario {
		return append(append(schedPair("snps-agg", func(n int) Call { return Call{Cmd: "snps", Ref: fastaOf("ref", g12), Msa: fastaOf(mutated(g12, n)...), Aggregate: true, Threshold: 0.01} }),
			schedPair("variants-agg", func(n int) Call { return Call{Cmd: "variants", Msa: msa(n), RefID: "ref", Anno: gb, AnnoSuffix: "gb", Aggregate: true} })...),
			schedPair("samvariants-agg", func(n int) Call { return Call{Cmd: "samvariants", Sam: samOf(n), Ref: fastaOf("ref", g12), Anno: gb, AnnoSuffix: "gb", Aggregate: true} })...)
	})
	add("C16", "fasta", func() []Scenario {
		// readers of different kinds and gap modes at work at once (each must still see its own encoding table)
		st := ">a\nAC-GT\n>b x\nNN-AC\n>c\nRY--A\n"
		return []Scenario{
			{Name: "readersconc/3rec", Family: "fasta", Mode: "U", Call: Call{Cmd: "readersconc", Msa: st, NCPU: 2}},
			{Name: "readersconc/wrapped", Family: "fasta", Mode: "D3M0", Call: Call{Cmd: "readersconc", Msa: ">a\nAC\n-GT\n>b\nNN\n-AC\n", NCPU: 2}},
		}
	})
	add("C17", "tables", func() []Scenario {
		// the table-driven library functions used from 2 and 3 goroutines at once (first use in the run
		// included: shared package-level state is re-initialised before every execution)
		return []Scenario{
			{Name: "libconc/g2", Family: "tables", Mode: "U", Call: Call{Cmd: "libconc", Query: "ATGGCNYTRTRAAAR TTYCAYMGRNNNATN", NCPU: 2}},
			{Name: "libconc/g3", Family: "tables", Mode: "U", Call: Call{Cmd: "libconc", Query: "ATGGCNYTRTRAAAR TTYCAYMGRNNNATN ACGTMRWSYKVHDBN", NCPU: 3}},
		}
	})
	add("C14", "formats", func() []Scenario {
		// GenBank and GFF annotation of the same genome, workers translating ambiguity codons concurrently
		feats := []Feat{{Name: "orfA", Segs: []Seg{{1, 9}}}, {Name: "orfB", Segs: []Seg{{4, 9}}}}
		m := func(n int) string {
			recs := []string{"ref", g12}
			for i := 0; i < n; i++ {
				recs = append(recs, fmt.Sprintf("s%02d", i), []string{"ATGRAATAACCC", "CTGAARTAACCC", "ATGAAATGACCC", "ATGCANTAACCC"}[i%4])
			}
			return fastaOf(recs...)
		}
		// GenBank features listed in descending order of their start (workers must not re-order shared structures)
		desc := []Feat{{Name: "orfB", Segs: []Seg{{4, 9}}}, {Name: "orfA", Segs: []Seg{{1, 9}}}}
		extra := schedPair("variants-gb-descending", func(n int) Call { return Call{Cmd: "variants", Msa: m(n), RefID: "ref", Anno: renderGenbank(g12, desc), AnnoSuffix: "gb"} })
		return append(append(extra, schedPair("variants-gb-ambig", func(n int) Call { return Call{Cmd: "variants", Msa: m(n), RefID: "ref", Anno: renderGenbank(g12, feats), AnnoSuffix: "gb", AppendSNP: true} })...),
			schedPair("variants-gff-ambig", func(n int) Call { return Call{Cmd: "variants", Msa: m(n), RefID: "ref", Anno: renderGFF(g12, feats, true, true), AnnoSuffix: "gff", AppendSNP: true} })...)
	})
	targets := func(n int) string { return fastaOf(mutated("ACGTACGTAAAA", n)...) }
	add("C06", "closest", func() []Scenario {
		q := fastaOf("qa", "ACGTACGTAAAA", "qb", "ACGTACGTAACA")
		return append(append(schedPair("closest", func(n int) Call { return Call{Cmd: "closest", Query: q, Target: targets(n), Measure: "raw"} }),
			schedPair("closestn", func(n int) Call { return Call{Cmd: "closest", Query: q, Target: targets(n), Measure: "snp", N: 3} })...),
			schedPair("closestn-table", func(n int) Call { return Call{Cmd: "closest", Query: q, Target: targets(n), Measure: "tn93", HasDist: true, MaxDist: 0.5, Table: true} })...)
	})
	add("C07", "distance", func() []Scenario {
		q := fastaOf("qa", "ACGTACGTAAAA", "qb", "ACGTACGTAACA")
		return schedPair("closest-table-all", func(n int) Call { return Call{Cmd: "closest", Query: q, Target: targets(n), Measure: "tn93", N: n, Table: true} })
	})
	add("C08", "topranking", func() []Scenario {
		q := fastaOf("qa", "CCCAAAAAAAAA", "qb", "ACAAGAAAAAAA")
		mk := func(o Call) func(n int) Call {
			return func(n int) Call {
				o.Cmd, o.Query, o.Target, o.Ref, o.QType, o.TType = "topranking", q, fastaOf(mutated("CCAAAAAAAAAA", n)...), fastaOf("r", "AAAAAAAAAAAA"), "fasta", "fasta"
				return o
			}
		}
		return append(append(schedPair("topranking-size", mk(Call{SizeTotal: 6})), schedPair("topranking-push", mk(Call{DistPush: 2, Table: true}))...), schedPair("topranking-dist", mk(Call{DistAll: 2}))...)
	})
}
