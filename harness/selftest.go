//go:build selftest

package main

// Engine self-test (tools/selftest.sh): micro-programs with known outcome sets, instrumented by the
// same instrumenter and explored by the same explorer as gofasta. Validates the instrumenter and
// the scheduler's model of channels / select / WaitGroup / Mutex / maps against real Go semantics.

import (
	"fmt"
	"os"
	"sort"
	"strings"

	"harness/engine"

	"github.com/virus-evolution/gofasta/pkg/zzselftest"
	"github.com/virus-evolution/gofasta/pkg/zzvs"
)

type stCase struct {
	name string
	fn   func() string
	ncpu int
	want []string // exact set of outcomes over ALL schedules and map orders
}

func init() {
	selftestMain = func() int {
		cases := []stCase{
			{"TwoSenders", zzselftest.TwoSenders, 1, []string{"returned:1 2", "returned:2 1"}},
			{"BufferedFIFO", zzselftest.BufferedFIFO, 1, []string{"returned:1,2,3,4"}},
			{"SelectDefault", zzselftest.SelectDefault, 1, []string{"returned:empty,got7"}},
			{"SelectTwoReady", zzselftest.SelectTwoReady, 1, []string{"returned:a1", "returned:b2"}},
			{"LockOrder", zzselftest.LockOrder, 1, []string{"deadlock", "returned:done"}},
			{"MutexCounter", zzselftest.MutexCounter, 1, []string{"returned:3"}},
			{"CheckThenAct", zzselftest.CheckThenAct, 1, []string{"returned:1", "returned:2"}},
			{"ClosedAndNil", zzselftest.ClosedAndNil, 1, []string{"returned:1,2|0 false"}},
			{"MapOrder", zzselftest.MapOrder, 1, []string{"returned:abc", "returned:acb", "returned:bac", "returned:bca", "returned:cab", "returned:cba"}},
			{"MapOrderSorted", zzselftest.MapOrderSorted, 1, []string{"returned:a1b2c3"}},
			{"WorkerPanics", zzselftest.WorkerPanics, 1, []string{"panic"}},
			{"SendOnClosed", zzselftest.SendOnClosed, 1, []string{"panic"}},
			{"Workers/ncpu=3", zzselftest.Workers, 3, []string{"returned:workers=3"}},
			{"Workers/ncpu=1", zzselftest.Workers, 1, []string{"returned:workers=1"}},
			{"ForgottenReceiver", zzselftest.ForgottenReceiver, 1, []string{"returned:returned"}},
			{"AllBlocked", zzselftest.AllBlocked, 1, []string{"deadlock"}},
			{"Pipeline3", zzselftest.Pipeline3, 1, []string{"returned:0;1;4;"}},
			{"PipelineArrival", zzselftest.PipelineArrival, 1, []string{"returned:01", "returned:10"}},
			{"Idioms", zzselftest.Idioms, 1, []string{"returned:5oncefull0one0 0"}},
			{"ErrFirst/ok", func() string { return zzselftest.ErrFirst(false) }, 1, []string{"returned:ok"}},
			{"LazyGlobal", zzselftest.LazyGlobal, 1, []string{"returned:0 3", "returned:1 3", "returned:2 3", "returned:3 3"}},
			{"GlobalCounter", zzselftest.GlobalCounter, 1, []string{"returned:1", "returned:2"}},
			{"CASBeforeBuild", zzselftest.CASBeforeBuild, 1, []string{"returned:0 3", "returned:1 3", "returned:3 3"}},
			{"AtomicCounter", zzselftest.AtomicCounter, 1, []string{"returned:0 2", "returned:1 2", "returned:2 2"}},
			{"PoolEarlyPut", zzselftest.PoolEarlyPut, 1, []string{"returned:aabb", "returned:bbbb"}},
			{"OnceLazy", zzselftest.OnceLazy, 1, []string{"returned:6"}},
			{"LateWrite", zzselftest.LateWrite, 1, []string{"returned:early;", "returned:early;late;"}},
			{"ErrFirst/fail", func() string { return zzselftest.ErrFirst(true) }, 1, []string{"returned:error: bad record 1"}},
		}
		bad := 0
		out := engine.ProtoOut()
		for _, c := range cases {
			c := c
			fn := func(prefix []int) (*zzvs.Result, string) {
				var s string
				r := zzvs.Run(prefix, c.ncpu, func() { s = c.fn() })
				obs := r.Outcome
				if r.Outcome == "returned" {
					obs += ":" + s
				}
				return r, obs
			}
			engine.DeterminismGuard(fn, nil)
			for _, mode := range []engine.Opts{{Unbounded: true}, {P: 3, M: 3}} {
				ex := engine.NewExplorer(fn, mode)
				ex.Subtree(nil)
				// plus the suspension family: each continuation point of the canonical execution suspended in turn
				r0, _ := fn(nil)
				for _, cont := range r0.Continuations {
					var gid string
					var k int
					if i := strings.LastIndex(cont, "#"); i > 0 {
						gid = cont[:i]
						fmt.Sscan(cont[i+1:], &k)
					}
					var sres string
					r := zzvs.RunSuspending(nil, gid, k, c.ncpu, func() { sres = c.fn() })
					obs := r.Outcome
					if r.Outcome == "returned" {
						obs += ":" + sres
					}
					ex.St.Outcomes[obs]++
				}
				var got []string
				for o := range ex.St.Outcomes {
					got = append(got, o)
				}
				sort.Strings(got)
				ok := strings.Join(got, "|") == strings.Join(c.want, "|")
				m := "U"
				if !mode.Unbounded {
					m = "P3M3"
				}
				if !ok {
					bad++
				}
				fmt.Fprintf(out, "%-20s mode=%-4s execs=%-6d states=%-6d outcomes=%v %s\n", c.name, m, ex.St.Execs, ex.St.States, got, map[bool]string{true: "ok", false: "MISMATCH want " + fmt.Sprint(c.want)}[ok])
			}
		}
		if bad > 0 {
			fmt.Fprintf(out, "SELFTEST FAILED: %d mismatches\n", bad)
			return 1
		}
		fmt.Fprintln(out, "SELFTEST OK")
		return 0
	}
	_ = os.Stdout
}
