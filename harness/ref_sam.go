package main

// Reference model of SAM -> alignment projection (C01, C02, C11, C15), written from the SAM
// specification and the property statements; shares no code with gofasta.

import (
	"fmt"
	"strings"
)

type CigOp struct {
	Op  byte `json:"op"`
	Len int  `json:"len"`
}

type SamRec struct {
	Name  string  `json:"name"`
	Flag  int     `json:"flag"`
	Pos   int     `json:"pos"` // 1-based
	Cigar []CigOp `json:"cigar"`
	Seq   string  `json:"seq"`
}

func cigarString(c []CigOp) string {
	var sb strings.Builder
	for _, o := range c {
		fmt.Fprintf(&sb, "%d%c", o.Len, o.Op)
	}
	return sb.String()
}

func consumesQuery(op byte) bool { return strings.IndexByte("MIS=X", op) >= 0 }
func consumesRef(op byte) bool   { return strings.IndexByte("MDN=X", op) >= 0 }
func isMatchOp(op byte) bool     { return op == 'M' || op == '=' || op == 'X' }

func cigarQueryLen(c []CigOp) int {
	n := 0
	for _, o := range c {
		if consumesQuery(o.Op) {
			n += o.Len
		}
	}
	return n
}

func cigarRefLen(c []CigOp) int {
	n := 0
	for _, o := range c {
		if consumesRef(o.Op) {
			n += o.Len
		}
	}
	return n
}

func (r SamRec) contributes() bool { return r.Flag&4 == 0 && r.Flag&256 == 0 }

func (r SamRec) line() string {
	return samRec(r.Name, r.Flag, r.Pos, cigarString(r.Cigar), r.Seq)
}

func samText(refLen int, recs []SamRec) string {
	var sb strings.Builder
	sb.WriteString(samHeader(refLen))
	for _, r := range recs {
		sb.WriteString(r.line())
	}
	return sb.String()
}

// column states of the projection
const (
	colNone = 0 // not covered
)

// project walks one record into reference coordinates: out[i] is 0 (uncovered), '-' (deleted) or
// the aligned query base; ins[p] collects the bases inserted after reference position p (0..L).
func project(r SamRec, L int) (out []byte, ins map[int]string) {
	out = make([]byte, L)
	ins = map[int]string{}
	q := 0
	p := r.Pos - 1 // 0-based next reference position
	for _, o := range r.Cigar {
		switch o.Op {
		case 'M', '=', 'X':
			for k := 0; k < o.Len; k++ {
				if p < L {
					out[p] = r.Seq[q]
				}
				p++
				q++
			}
		case 'I':
			ins[p] += r.Seq[q : q+o.Len]
			q += o.Len
		case 'S':
			q += o.Len
		case 'D':
			for k := 0; k < o.Len; k++ {
				if p < L {
					out[p] = '-'
				}
				p++
			}
		case 'N':
			p += o.Len
		case 'H', 'P':
		}
	}
	return
}

// mergeColumns flattens the projections of a query's contributing records: a base beats a deletion
// beats no coverage; two different bases give 'N'.
func mergeColumns(rows [][]byte, L int) []byte {
	out := make([]byte, L)
	for i := 0; i < L; i++ {
		var base byte
		conflict := false
		del := false
		for _, r := range rows {
			c := r[i]
			switch {
			case c == 0:
			case c == '-':
				del = true
			default:
				if base == 0 {
					base = c
				} else if base != c {
					conflict = true
				}
			}
		}
		switch {
		case conflict:
			out[i] = 'N'
		case base != 0:
			out[i] = base
		case del:
			out[i] = '-'
		}
	}
	return out
}

// flankRule turns uncovered columns into characters: all 'N' under pad; otherwise '-' outside the
// first/last base and 'N' between them. ok=false when the query has no aligned base at all (the
// statement leaves that case undefined).
func flankRule(cols []byte, pad bool) (string, bool) {
	first, last := -1, -1
	for i, c := range cols {
		if c != 0 && c != '-' {
			if first < 0 {
				first = i
			}
			last = i
		}
	}
	out := make([]byte, len(cols))
	for i, c := range cols {
		switch {
		case c != 0:
			out[i] = c
		case pad:
			out[i] = 'N'
		case first >= 0 && i > first && i < last:
			out[i] = 'N'
		default:
			out[i] = '-'
		}
	}
	return string(out), first >= 0
}

// samGroup is one expected output record: the contributing records of one query.
type samGroup struct {
	Name string
	Recs []SamRec
}

// groupRecords: one group per query name in input order; skipped (unmapped/secondary) records never
// contribute. Inputs keep a query's contributing records contiguous (as aligners write them).
func groupRecords(recs []SamRec) []samGroup {
	var gs []samGroup
	for _, r := range recs {
		if !r.contributes() {
			continue
		}
		if len(gs) > 0 && gs[len(gs)-1].Name == r.Name {
			gs[len(gs)-1].Recs = append(gs[len(gs)-1].Recs, r)
		} else {
			gs = append(gs, samGroup{Name: r.Name, Recs: []SamRec{r}})
		}
	}
	return gs
}

// tomaRow is the expected toMultiAlign row of a group (before windowing). judged=false when the
// group has no aligned base.
func tomaRow(g samGroup, L int, pad bool) (string, bool) {
	var rows [][]byte
	for _, r := range g.Recs {
		o, _ := project(r, L)
		rows = append(rows, o)
	}
	return flankRule(mergeColumns(rows, L), pad)
}

// window applies --start/--end (1-based inclusive; 0 = unset) to a toMultiAlign row.
func tomaWindow(row string, start, end int, pad bool) string {
	if start == 0 && end == 0 {
		return row
	}
	s, e := start, end
	if s == 0 {
		s = 1
	}
	if e == 0 {
		e = len(row)
	}
	if !pad {
		return row[s-1 : e]
	}
	b := []byte(row)
	for i := range b {
		if i < s-1 || i >= e {
			b[i] = 'N'
		}
	}
	return string(b)
}

// ---------- enumeration of CIGAR strings ----------

const cigarOps = "MIDNSHP=X"

// validCigar applies the constraints the SAM parser enforces (H only outermost, S outermost or next
// to an outermost H) plus ours: at least one M/=/X, adjacent operators of different type.
func validCigar(c []CigOp) bool {
	n := len(c)
	hasMatch := false
	for i, o := range c {
		if i > 0 && c[i-1].Op == o.Op {
			return false
		}
		if isMatchOp(o.Op) {
			hasMatch = true
		}
		if o.Op == 'H' && i != 0 && i != n-1 {
			return false
		}
		if o.Op == 'S' && i != 0 && i != n-1 {
			if !(i == 1 && c[0].Op == 'H') && !(i == n-2 && c[n-1].Op == 'H') {
				return false
			}
		}
	}
	return hasMatch
}

// enumCigars calls f for every valid CIGAR with at most maxOps operators over ops with lengths in
// lens, simplest first (fewer operators first, operator order as in ops).
func enumCigars(ops string, lens []int, maxOps int, f func([]CigOp)) (nodes int) {
	var rec func(cur []CigOp, target int)
	rec = func(cur []CigOp, target int) {
		nodes++
		if len(cur) == target {
			if validCigar(cur) {
				f(append([]CigOp(nil), cur...))
			}
			return
		}
		for i := 0; i < len(ops); i++ {
			if len(cur) > 0 && cur[len(cur)-1].Op == ops[i] {
				continue
			}
			for _, l := range lens {
				rec(append(cur, CigOp{ops[i], l}), target)
			}
		}
	}
	for n := 1; n <= maxOps; n++ {
		rec(nil, n)
	}
	return
}

const seqLetters = "ACMGRSVTWYHKDBN" // the letters SAM's 4-bit sequence encoding preserves

// seqByQueryIndex gives every query position a different letter (offset shifts the cycle).
func seqByQueryIndex(c []CigOp, offset int) string {
	n := cigarQueryLen(c)
	b := make([]byte, n)
	for i := range b {
		b[i] = seqLetters[(i+offset)%len(seqLetters)]
	}
	return string(b)
}

// seqByRefPos gives aligned bases the letter of their reference position (so two records of one
// query agree wherever they overlap) and inserted/clipped bases letters from the other end.
func seqByRefPos(c []CigOp, pos int) string {
	var b []byte
	p := pos - 1
	k := 0
	for _, o := range c {
		switch o.Op {
		case 'M', '=', 'X':
			for i := 0; i < o.Len; i++ {
				b = append(b, "ACGT"[p%4])
				p++
			}
		case 'I', 'S':
			for i := 0; i < o.Len; i++ {
				b = append(b, "RYSWKM"[k%6])
				k++
			}
		case 'D', 'N':
			p += o.Len
		}
	}
	return string(b)
}

// ---------- pairwise model (C02) ----------

// pairRows builds the reference row and query row of the pairwise alignment of one query: columns
// are the reference positions interleaved with the insertion columns of its records; the reference
// row has '-' exactly at insertion columns; the query row has the aligned/inserted bases, '-' at
// deleted positions and 'N' at positions no record covers. baseCol[i] is the column of reference
// base i+1. skipIns drops the insertion columns.
func pairRows(g samGroup, ref string, skipIns bool) (refRow, qRow string, baseCol []int) {
	L := len(ref)
	var rows [][]byte
	ins := map[int]string{}
	for _, r := range g.Recs {
		o, in := project(r, L)
		rows = append(rows, o)
		for p, s := range in {
			ins[p] += s
		}
	}
	cols := mergeColumns(rows, L)
	var rb, qb []byte
	for p := 0; p <= L; p++ {
		if s := ins[p]; s != "" && !skipIns {
			for i := 0; i < len(s); i++ {
				rb = append(rb, '-')
				qb = append(qb, s[i])
			}
		}
		if p < L {
			baseCol = append(baseCol, len(rb))
			rb = append(rb, ref[p])
			c := cols[p]
			if c == 0 {
				c = 'N'
			}
			qb = append(qb, c)
		}
	}
	return string(rb), string(qb), baseCol
}

// pairWindow cuts both rows from the column of reference base s to that of base e (0 = unset).
func pairWindow(refRow, qRow string, baseCol []int, s, e int) (string, string) {
	if s == 0 && e == 0 {
		return refRow, qRow
	}
	if s == 0 {
		s = 1
	}
	if e == 0 {
		e = len(baseCol)
	}
	a, b := baseCol[s-1], baseCol[e-1]+1
	return refRow[a:b], qRow[a:b]
}

func dropRefGapColumns(refRow, qRow string) string {
	var b []byte
	for i := 0; i < len(refRow); i++ {
		if refRow[i] != '-' {
			b = append(b, qRow[i])
		}
	}
	return string(b)
}

// alnCol is one column of a master alignment used to generate multi-record queries.
type alnCol byte // 'M' match, 'I' insertion, 'D' deletion

// opsOf turns a run of columns into CIGAR operators.
func opsOf(cols []alnCol) []CigOp {
	var c []CigOp
	for _, k := range cols {
		if len(c) > 0 && c[len(c)-1].Op == byte(k) {
			c[len(c)-1].Len++
		} else {
			c = append(c, CigOp{byte(k), 1})
		}
	}
	return c
}

func colsOf(c []CigOp) []alnCol {
	var out []alnCol
	for _, o := range c {
		for i := 0; i < o.Len; i++ {
			out = append(out, alnCol(o.Op))
		}
	}
	return out
}

// cutRecord makes the SAM record for columns [a,b) of a master alignment that starts at reference
// position pos (1-based) with query sequence qseq; the rest of the query is hard- or soft-clipped.
func cutRecord(name string, flag int, master []alnCol, pos int, qseq string, a, b int, soft bool) (SamRec, bool) {
	qBefore, rBefore, qIn := 0, 0, 0
	for i, k := range master {
		cq := k == 'M' || k == 'I'
		cr := k == 'M' || k == 'D'
		switch {
		case i < a:
			if cq {
				qBefore++
			}
			if cr {
				rBefore++
			}
		case i < b:
			if cq {
				qIn++
			}
		}
	}
	qAfter := len(qseq) - qBefore - qIn
	part := opsOf(master[a:b])
	hasM := false
	for _, o := range part {
		if o.Op == 'M' {
			hasM = true
		}
	}
	if !hasM {
		return SamRec{}, false
	}
	clip := byte('H')
	seq := qseq[qBefore : qBefore+qIn]
	if soft {
		clip = 'S'
		seq = qseq
	}
	var cig []CigOp
	if qBefore > 0 {
		cig = append(cig, CigOp{clip, qBefore})
	}
	cig = append(cig, part...)
	if qAfter > 0 {
		cig = append(cig, CigOp{clip, qAfter})
	}
	return SamRec{Name: name, Flag: flag, Pos: pos + rBefore, Cigar: cig, Seq: seq}, true
}
