package main

// C02 — sam toPairAlign reconstructs each pairwise alignment losslessly.

import (
	"encoding/json"
	"fmt"
	"os"
	"path/filepath"
	"strings"

	"harness/engine"
)

type c02Case struct {
	Ref     string   `json:"ref"`
	Recs    []SamRec `json:"records"`
	Start   int      `json:"start,omitempty"`
	End     int      `json:"end,omitempty"`
	Wrap    int      `json:"wrap,omitempty"`
	OmitRef bool     `json:"omitref,omitempty"`
	OmitIns bool     `json:"omitins,omitempty"`
	PairDir bool     `json:"pairdir,omitempty"`
	Threads int      `json:"threads,omitempty"`
	NoDiff  bool     `json:"nodiff,omitempty"` // skip the differential runs (options layer)
}

func (c c02Case) call() Call {
	t := c.Threads
	if t == 0 {
		t = 1
	}
	return Call{Cmd: "topa", Sam: samText(len(c.Ref), c.Recs), Ref: fastaOf("ref", c.Ref), Start: c.Start, End: c.End, Wrap: c.Wrap, OmitRef: c.OmitRef, OmitIns: c.OmitIns, PairDir: c.PairDir, Threads: t}
}

type pairExp struct {
	Name     string
	RefRow   string
	QRow     string
	HasIns   bool
	NRecords int
}

func c02Expected(c c02Case) []pairExp {
	var out []pairExp
	for _, g := range groupRecords(c.Recs) {
		rr, qr, bc := pairRows(g, c.Ref, c.OmitIns)
		rr, qr = pairWindow(rr, qr, bc, c.Start, c.End)
		hasIns := false
		for _, r := range g.Recs {
			for _, o := range r.Cigar {
				if o.Op == 'I' {
					hasIns = true
				}
			}
		}
		out = append(out, pairExp{g.Name, rr, qr, hasIns, len(g.Recs)})
	}
	return out
}

func c02Cause(c c02Case, e pairExp) string {
	switch {
	case e.NRecords > 1 && e.HasIns && !c.OmitIns:
		return "topa:multi-record-with-insertion"
	case e.NRecords > 1:
		return "topa:multi-record"
	case c.Start != 0 || c.End != 0:
		return "topa:window"
	case c.OmitIns:
		return "topa:skip-insertions"
	}
	return "topa:single-record"
}

// c02Parse turns the command's output into (refRow, queryRow, widths) per query.
func c02Parse(c c02Case, out string) (map[string][2]fastaRec, []string, bool) {
	res := map[string][2]fastaRec{}
	var order []string
	parseBlock := func(txt string) bool {
		recs, ok := parseFasta(txt)
		if !ok {
			return false
		}
		step := 2
		if c.OmitRef {
			step = 1
		}
		if len(recs)%step != 0 {
			return false
		}
		for i := 0; i < len(recs); i += step {
			var pr [2]fastaRec
			if c.OmitRef {
				pr[1] = recs[i]
			} else {
				pr[0], pr[1] = recs[i], recs[i+1]
				if pr[0].Header != "ref" {
					return false
				}
			}
			res[pr[1].Header] = pr
			order = append(order, pr[1].Header)
		}
		return true
	}
	if !c.PairDir {
		return res, order, parseBlock(out)
	}
	for _, blk := range strings.Split(out, "== ") {
		if blk == "" {
			continue
		}
		i := strings.IndexByte(blk, '\n')
		if i < 0 {
			return res, order, false
		}
		n0 := len(order)
		if !parseBlock(blk[i+1:]) {
			return res, order, false
		}
		if len(order) != n0+1 || order[n0]+".fasta" != blk[:i] {
			return res, order, false
		}
	}
	return res, order, true
}

func c02Check(c c02Case, res *engine.JobResult, attribute bool) {
	exp := c02Expected(c)
	res.Evals += len(exp)
	call := c.call()
	o := call.Canon()
	single := func() {
		for _, g := range groupRecords(c.Recs) {
			cc := c
			cc.Recs = g.Recs
			c02Check(cc, res, false)
		}
	}
	if len(exp) == 0 {
		return
	}
	if o.Outcome != "returned" || o.HasErr {
		if attribute && len(exp) > 1 {
			single()
			return
		}
		res.Violate(c02Cause(c, exp[0])+":"+o.Outcome, fmt.Sprintf("valid SAM not converted (%s): %s %s", describeRecs(c.Recs), o.String(), o.Detail), c)
		return
	}
	got, order, ok := c02Parse(c, o.Out)
	if !ok || len(order) != len(exp) {
		if attribute && len(exp) > 1 {
			single()
			return
		}
		res.Violate("topa:record-structure", fmt.Sprintf("expected %d pairs, output %q", len(exp), o.Out), c)
		return
	}
	for i, e := range exp {
		if !c.PairDir && order[i] != e.Name {
			res.Violate("topa:record-order", fmt.Sprintf("pair %d is %q, expected %q", i, order[i], e.Name), c)
			return
		}
		pr, present := got[e.Name]
		bad := !present || pr[1].Seq != e.QRow || (!c.OmitRef && pr[0].Seq != e.RefRow)
		if bad {
			if attribute && len(exp) > 1 {
				cc := c
				cc.Recs = groupRecords(c.Recs)[i].Recs
				before := len(res.Violations)
				n0 := res.Counters["violations_total"]
				c02Check(cc, res, false)
				if len(res.Violations) == before && res.Counters["violations_total"] == n0 {
					res.Violate("topa:row-in-context", fmt.Sprintf("query %s wrong only inside this file: got %q/%q want %q/%q", e.Name, pr[0].Seq, pr[1].Seq, e.RefRow, e.QRow), c)
				}
				continue
			}
			res.Violate(c02Cause(c, e), fmt.Sprintf("query %s (%s) on reference %s: got ref row %q query row %q, want %q / %q", e.Name, describeRecs(groupRecords(c.Recs)[i].Recs), c.Ref, pr[0].Seq, pr[1].Seq, e.RefRow, e.QRow), c)
			continue
		}
		if !wrapOK(pr[1].Widths, len(e.QRow), c.Wrap) || (!c.OmitRef && !wrapOK(pr[0].Widths, len(e.RefRow), c.Wrap)) {
			res.Violate("topa:wrap", fmt.Sprintf("query %s: line widths %v / %v with --wrap %d", e.Name, pr[0].Widths, pr[1].Widths, c.Wrap), c)
		}
	}
	if c.NoDiff || c.Start != 0 || c.End != 0 || c.OmitIns || c.OmitRef || c.PairDir {
		return
	}
	// differential, oracle-free: dropping the reference-gap columns of the real pair output = real
	// --skip-insertions output = real toMultiAlign --pad row
	cs := c
	cs.OmitIns = true
	cs.Wrap = 0
	os := cs.call()
	o2 := os.Canon()
	tm := Call{Cmd: "toma", Sam: call.Sam, Pad: true, Threads: 1}
	o3 := tm.Canon()
	if o2.Outcome != "returned" || o2.HasErr || o3.Outcome != "returned" || o3.HasErr {
		if attribute && len(exp) > 1 {
			single()
			return
		}
		res.Violate("topa:differential-run-failed", "--skip-insertions or toMultiAlign --pad failed on the same SAM: "+o2.String()+" / "+o3.String(), c)
		return
	}
	got2, _, ok2 := c02Parse(cs, o2.Out)
	tr, ok3 := parseFasta(o3.Out)
	if !ok2 || !ok3 || len(tr) != len(exp) {
		res.Violate("topa:differential-structure", "cannot parse the differential outputs", c)
		return
	}
	for i, e := range exp {
		pr := got[e.Name]
		dropped := dropRefGapColumns(pr[0].Seq, pr[1].Seq)
		if len(pr[0].Seq) != len(pr[1].Seq) {
			continue // already reported
		}
		if dropped != got2[e.Name][1].Seq || dropped != tr[i].Seq {
			if attribute && len(exp) > 1 {
				cc := c
				cc.Recs = groupRecords(c.Recs)[i].Recs
				c02Check(cc, res, false)
				continue
			}
			cause := "topa:differs-from-skip-insertions-or-toma"
			if e.NRecords > 1 && e.HasIns {
				cause = "topa:multi-record-with-insertion"
			}
			res.Violate(cause, fmt.Sprintf("query %s (%s): pair output minus reference-gap columns %q, --skip-insertions %q, toMultiAlign --pad %q", e.Name, describeRecs(groupRecords(c.Recs)[i].Recs), dropped, got2[e.Name][1].Seq, tr[i].Seq), c)
		}
	}
}

const c02RefA = "ACGTAC"
const c02RefB = "ACGTCAGT"

func c02LayerA(tier string, shard, nshard int, res *engine.JobResult) {
	maxOps := 3
	if tier == "thorough" {
		maxOps = 4
	}
	vs, nodes := c01Variants(maxOps, []int{1, 2}, len(c02RefA))
	if shard == 0 {
		res.States += nodes
	}
	const batch = 48
	for b0, bi := 0, 0; b0 < len(vs); b0, bi = b0+batch, bi+1 {
		if bi%nshard != shard {
			continue
		}
		end := b0 + batch
		if end > len(vs) {
			end = len(vs)
		}
		var recs []SamRec
		for i, v := range vs[b0:end] {
			recs = append(recs, SamRec{Name: fmt.Sprintf("q%d", b0+i), Flag: []int{0, 16}[(b0+i)%2], Pos: v.Pos, Cigar: v.Cigar, Seq: seqByQueryIndex(v.Cigar, (b0+i)%7)})
		}
		c := c02Case{Ref: c02RefA, Recs: recs, Threads: 1 + bi%2}
		c02Check(c, res, true)
		res.States += len(recs)
		for _, r := range recs {
			if strings.Trim(cigarString(r.Cigar), "0123456789M") != "" {
				res.Nontrivial++
			}
		}
		if bi == 30 {
			res.Sample(c02Case{Ref: c02RefA, Recs: recs[:3]})
		}
	}
}

// c02Masters enumerates master alignments over M/I/D and, for each, the multi-record queries cut
// from it. f receives the records of one query.
func c02Cuts(tier string, f func(recs []SamRec, kind string)) (nodes int) {
	maxOps := 4
	nrec := 2
	if tier == "thorough" {
		maxOps = 5
		nrec = 3
	}
	L := len(c02RefB)
	qi := 0
	nodes = enumCigars("MID", []int{1, 2}, maxOps, func(c []CigOp) {
		cols := colsOf(c)
		span := cigarRefLen(c)
		qseq := seqByQueryIndex(c, 0)
		for pos := 1; pos-1+span <= L; pos += 1 {
			n := len(cols)
			for k1 := 1; k1 < n; k1++ {
				for k2 := k1; k2 < n && k2 <= k1+2; k2++ {
					for _, soft := range []bool{false, true} {
						name := fmt.Sprintf("m%d", qi)
						r1, ok1 := cutRecord(name, 0, cols, pos, qseq, 0, k1, soft)
						r2, ok2 := cutRecord(name, 2048, cols, pos, qseq, k2, n, soft)
						if !ok1 || !ok2 {
							continue
						}
						qi++
						kind := "adjacent"
						if k2 > k1 {
							kind = "separated"
						}
						if qi%2 == 0 {
							f([]SamRec{r1, r2}, kind)
						} else {
							r1.Flag, r2.Flag = 2048, 0
							f([]SamRec{r2, r1}, kind)
						}
						// tier B: overlap of one matching column
						if k2 == k1 && cols[k1-1] == 'M' && !soft {
							r2b, ok := cutRecord(name+"o", 2048, cols, pos, qseq, k1-1, n, soft)
							r1b := r1
							r1b.Name = name + "o"
							if ok {
								f([]SamRec{r1b, r2b}, "overlap")
							}
						}
					}
				}
			}
			if nrec == 3 {
				for k1 := 1; k1 < n; k1++ {
					for k2 := k1 + 1; k2 < n; k2++ {
						name := fmt.Sprintf("t%d", qi)
						r1, ok1 := cutRecord(name, 0, cols, pos, qseq, 0, k1, false)
						r2, ok2 := cutRecord(name, 2048, cols, pos, qseq, k1, k2, false)
						r3, ok3 := cutRecord(name, 2048, cols, pos, qseq, k2, n, false)
						if ok1 && ok2 && ok3 {
							qi++
							switch qi % 3 {
							case 0:
								f([]SamRec{r1, r2, r3}, "three")
							case 1:
								f([]SamRec{r3, r1, r2}, "three")
							default:
								f([]SamRec{r2, r3, r1}, "three")
							}
						}
					}
				}
			}
		}
	})
	return
}

func c02LayerB(tier string, shard, nshard int, res *engine.JobResult) {
	const batch = 32
	var recs []SamRec
	nq, bi := 0, 0
	flush := func() {
		if nq == 0 {
			return
		}
		if bi%nshard == shard {
			c02Check(c02Case{Ref: c02RefB, Recs: recs, Threads: 1 + bi%2}, res, true)
			res.States += nq
			res.Nontrivial += nq
			if bi == 64 {
				res.Sample(c02Case{Ref: c02RefB, Recs: recs[:4]})
			}
		}
		recs, nq = nil, 0
		bi++
	}
	nodes := c02Cuts(tier, func(rs []SamRec, kind string) {
		recs = append(recs, rs...)
		nq++
		if nq == batch {
			flush()
		}
	})
	flush()
	if shard == 0 {
		res.States += nodes
	}
}

func c02Files(n int) [][]SamRec {
	var all [][]SamRec
	c02Cuts("quick", func(rs []SamRec, kind string) { all = append(all, rs) })
	single := c01Files(n)
	var files [][]SamRec
	for f := 0; f < n; f++ {
		var recs []SamRec
		// keep only single-record queries from the C01 files (multi-record ones there may conflict)
		seen := map[string]int{}
		for _, r := range single[f] {
			seen[r.Name]++
		}
		for _, r := range single[f] {
			if seen[r.Name] == 1 {
				recs = append(recs, r)
			}
		}
		for k := 0; k < 2; k++ {
			g := all[(f*131+k*977)%len(all)]
			for _, r := range g {
				// the cut queries were built on the 8-base reference; re-use only those that fit 6 bases
				if r.Pos-1+cigarRefLen(r.Cigar) > len(c02RefA) {
					g = nil
					break
				}
			}
			for _, r := range g {
				r.Name = fmt.Sprintf("%s_%d", r.Name, k)
				recs = append(recs, r)
			}
		}
		files = append(files, recs)
	}
	return files
}

func c02LayerC(tier string, shard, nshard int, res *engine.JobResult) {
	nf := 8
	if tier == "thorough" {
		nf = 32
	}
	L := len(c02RefA)
	idx := 0
	for _, recs := range c02Files(nf) {
		for s := 0; s <= L; s++ {
			for e := 0; e <= L; e++ {
				if s != 0 && e != 0 && s > e {
					continue
				}
				for opt := 0; opt < 8; opt++ {
					for _, wrap := range []int{0, 1, 3, L + 3} {
						idx++
						if idx%nshard != shard {
							continue
						}
						c := c02Case{Ref: c02RefA, Recs: recs, Start: s, End: e, Wrap: wrap, OmitRef: opt&1 != 0, OmitIns: opt&2 != 0, PairDir: opt&4 != 0, Threads: 1 + idx%3, NoDiff: true}
						c02Check(c, res, false)
						res.States++
						res.Nontrivial += len(groupRecords(recs))
					}
				}
			}
		}
	}
}

// c02LayerH: histories of two runs into the same output directory (every ordered pair of option
// settings from a menu): afterwards every query's file must hold exactly the second run's alignment.
func c02LayerH(tier string, shard, nshard int, res *engine.JobResult) {
	menu := []c02Case{{}, {OmitRef: true}, {Start: 2, End: 4}, {OmitIns: true}, {Wrap: 2}, {OmitRef: true, End: 3}}
	files := c02Files(8)
	idx := 0
	for fi, recs := range files {
		for i, o1 := range menu {
			for j, o2 := range menu {
				idx++
				if idx%nshard != shard {
					continue
				}
				dir := filepath.Join(engine.Scratch(), fmt.Sprintf("hist%d_%d_%d", fi, i, j))
				os.MkdirAll(dir, 0755)
				var last Obs
				var c c02Case
				for _, o := range []c02Case{o1, o2} {
					c = o
					c.Ref, c.Recs, c.PairDir, c.Threads, c.NoDiff = c02RefA, recs, true, 1+idx%2, true
					call := c.call()
					call.Dir = dir
					last = call.Canon()
				}
				os.RemoveAll(dir)
				exp := c02Expected(c)
				res.Evals += len(exp)
				res.States++
				res.Nontrivial += len(exp)
				if last.Outcome != "returned" || last.HasErr {
					res.Violate("topa:history-"+last.Outcome, "second run into the same directory failed: "+last.String()+last.Detail, c)
					continue
				}
				got, order, ok := c02Parse(c, last.Out)
				if !ok || len(order) != len(exp) {
					res.Violate("topa:history-stale-output", fmt.Sprintf("after runs with option sets %d then %d into one directory the files are not the second run's alignments: %q", i, j, last.Out), c)
					continue
				}
				for _, e := range exp {
					pr := got[e.Name]
					if pr[1].Seq != e.QRow || (!c.OmitRef && pr[0].Seq != e.RefRow) {
						res.Violate("topa:history-stale-output", fmt.Sprintf("after runs with option sets %d then %d into one directory, %s.fasta holds %q/%q, want %q/%q", i, j, e.Name, pr[0].Seq, pr[1].Seq, e.RefRow, e.QRow), c)
						break
					}
				}
			}
		}
	}
}

func c02CLI(tier string, shard, nshard int, res *engine.JobResult) {
	files := c02Files(8)
	for i, recs := range files {
		if i%nshard != shard {
			continue
		}
		for _, o := range []c02Case{{}, {Start: 2, End: 5}, {OmitRef: true, Wrap: 4}, {OmitIns: true, End: 4}, {PairDir: true}, {PairDir: true, Start: 3, OmitRef: true}} {
			c := o
			c.Ref, c.Recs, c.Threads = c02RefA, recs, 1+(i+engine.Seed())%3
			exp := c02Expected(c)
			call := c.call()
			ob, _ := call.CLI(nil, 0)
			res.Evals += len(exp)
			res.Validated += len(exp)
			if ob.Outcome != "returned" || ob.HasErr {
				res.Violate("topa:binary-"+ob.Outcome, "real binary failed: "+ob.String()+ob.Detail, c)
				continue
			}
			got, order, ok := c02Parse(c, ob.Out)
			if !ok || len(order) != len(exp) {
				res.Violate("topa:binary-structure", fmt.Sprintf("real binary output not parseable: %q", ob.Out), c)
				continue
			}
			for k, e := range exp {
				pr := got[e.Name]
				if (!c.PairDir && order[k] != e.Name) || pr[1].Seq != e.QRow || (!c.OmitRef && pr[0].Seq != e.RefRow) {
					res.Violate("topa:binary-differs", fmt.Sprintf("real binary: query %s got %q/%q want %q/%q", e.Name, pr[0].Seq, pr[1].Seq, e.RefRow, e.QRow), c)
					break
				}
			}
		}
	}
}

// ---- schedule layer (the --threads quantifier): every explored interleaving of the reader / align
// workers / trim workers / re-ordering stage / writer must produce the model's pairs, in input order on
// stdout; including executions in which one worker is stalled while the others run ahead.

func c02SchedCases() []c02Case {
	mk := func(n int, o c02Case) c02Case {
		var recs []SamRec
		for i := 0; i < n; i++ {
			cig := [][]CigOp{{{'M', 6}}, {{'M', 2}, {'I', 2}, {'M', 4}}, {{'M', 4}, {'I', 2}, {'M', 2}}, {{'M', 2}, {'D', 2}, {'M', 2}}}[i%4]
			recs = append(recs, SamRec{Name: fmt.Sprintf("q%02d", i), Pos: 1, Cigar: cig, Seq: seqByQueryIndex(cig, i)})
		}
		o.Ref, o.Recs, o.Threads, o.NoDiff = c02RefA, recs, 2, true
		return o
	}
	return []c02Case{mk(4, c02Case{}), mk(4, c02Case{Start: 2, End: 5}), mk(4, c02Case{PairDir: true, OmitRef: true}), mk(70, c02Case{}), mk(70, c02Case{Start: 2, End: 5, Wrap: 3})}
}

func c02SchedScenarios() []Scenario {
	var out []Scenario
	for i, c := range c02SchedCases() {
		call := c.call()
		call.NCPU = 2
		mode := "D2M1"
		if len(c.Recs) > 20 {
			mode = "D1M1"
		}
		out = append(out, Scenario{Name: fmt.Sprintf("topa-sched-%d/records%d", i, len(c.Recs)), Family: "topa-schedule", Call: call, Mode: mode})
	}
	return out
}

func c02SchedJudge(sc *Scenario, st *engine.Stats, res *engine.JobResult) {
	var idx int
	fmt.Sscanf(sc.Name, "topa-sched-%d/", &idx)
	c := c02SchedCases()[idx]
	exp := c02Expected(c)
	for obs, n := range st.Outcomes {
		ok := strings.HasPrefix(obs, "returned|err=false:|")
		if ok {
			var txt string
			fmt.Sscanf(strings.TrimPrefix(obs, "returned|err=false:|"), "%q", &txt)
			got, order, okp := c02Parse(c, txt)
			ok = okp && len(order) == len(exp)
			for i := 0; ok && i < len(exp); i++ {
				pr := got[exp[i].Name]
				ok = (c.PairDir || order[i] == exp[i].Name) && pr[1].Seq == exp[i].QRow && (c.OmitRef || pr[0].Seq == exp[i].RefRow) && wrapOK(pr[1].Widths, len(exp[i].QRow), c.Wrap)
			}
		}
		if !ok {
			res.Violate("topa:schedule-dependent-output", fmt.Sprintf("scenario %s: %d explored execution(s) do not produce every query's pair (in input order): %.400s", sc.Name, n, obs), schedCase{Scenario: *sc, Trace: st.FirstTrace[obs], Obs: obs})
		} else {
			res.Nontrivial += n
		}
	}
}

func init() {
	layers := map[string]func(string, int, int, *engine.JobResult){"A": c02LayerA, "B": c02LayerB, "C": c02LayerC, "CLI": c02CLI, "H": c02LayerH}
	register(&Prop{
		ID:    "C02",
		Level: "model_checking",
		Rule: "bounded-exhaustive enumeration against a reference pairwise model plus an oracle-free differential (pair output minus reference-gap columns = --skip-insertions output = toMultiAlign --pad row). A: every valid single-record CIGAR over MIDNSHP=X, <=3 (thorough 4) operators of length 1-2, every POS on a 6-base reference; " +
			"B: every master alignment over M/I/D with <=4 (thorough 5) operators at every POS on an 8-base reference, cut into 2 (thorough also 3) records at every cut point (adjacent, separated by up to 2 uncovered columns, or overlapping in one matching column), hard- and soft-clipped, both file orders; C: representative files x every window x omit-reference x skip-insertions x directory/stdout x wrap {off,1,3,L+3} x threads 1..3; H: every ordered pair of 6 option settings run one after the other into the same output directory; S (schedules): files of 4 and 70 queries with 2 workers, stdout / window / directory, under every execution with <=2 (70 queries: <=1) non-default scheduling choices plus the starvation family: every execution must produce the model's pairs in input order. " +
			"A case is one query in one option setting; non-trivial = not a pure-M single record; each case generated once",
		Assumptions: []string{
			"'non-conflicting' records = disjoint reference intervals, or overlaps consisting of matching columns only; overlaps containing indels are not generated",
			"CIGAR N counts as no coverage ('N' in the query row)",
			"a query's records are contiguous in the file",
			"each call runs on the canonical schedule of the controlled scheduler",
		},
		Bounds: func(tier string) map[string]interface{} {
			return map[string]interface{}{"reference": []string{c02RefA, c02RefB}, "single_record_max_operators": map[string]int{"quick": 3, "thorough": 4}[tier], "master_max_operators": map[string]int{"quick": 4, "thorough": 5}[tier], "records_per_query": map[string]int{"quick": 2, "thorough": 3}[tier]}
		},
		Plan: func(tier string) ([]string, *engine.JobResult) {
			var jobs []string
			n := map[string]int{"A": 16, "B": 48, "C": 16, "CLI": 4, "H": 4}
			if tier == "thorough" {
				n = map[string]int{"A": 64, "B": 192, "C": 64, "CLI": 4, "H": 4}
			}
			sjobs, pre := planSched(c02SchedScenarios(), 1, c02SchedJudge)
			jobs = append(jobs, sjobs...)
			for _, l := range []string{"A", "C", "CLI", "H", "B"} {
				for s := 0; s < n[l]; s++ {
					jobs = append(jobs, fmt.Sprintf("%s:%d/%d", l, s, n[l]))
				}
			}
			return jobs, pre
		},
		Exec: func(tier, job string) *engine.JobResult {
			res := &engine.JobResult{}
			defer func() { res.Transitions = res.States }()
			if strings.HasPrefix(job, "case:") {
				var scs schedCase
				if err := json.Unmarshal([]byte(job[5:]), &scs); err == nil && scs.Scenario.Name != "" {
					st := engine.NewStats()
					_, obs := scs.Scenario.execFn()(scs.Trace)
					st.Outcomes[obs] = 1
					st.FirstTrace[obs] = scs.Trace
					c02SchedJudge(&scs.Scenario, st, res)
					return res
				}
				var c c02Case
				mustJSON(job[5:], &c)
				c02Check(c, res, false)
				return res
			}
			if strings.HasPrefix(job, "{") {
				return execSched(c02SchedScenarios(), job, c02SchedJudge)
			}
			parts := strings.SplitN(job, ":", 2)
			var s, n int
			fmt.Sscanf(parts[1], "%d/%d", &s, &n)
			layers[parts[0]](tier, s, n, res)
			return res
		},
	})
}
