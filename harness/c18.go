package main

// C18 — invalid or inconsistent input is refused with a non-zero exit, never silently.
// Engine S over every interleaving (bounded preemptions) of the error paths + the real binary.

import (
	"encoding/json"
	"fmt"
	"sort"
	"strings"
	"time"

	"harness/engine"
)

type c18Item struct {
	Mode       string `json:"mode,omitempty"` // exploration mode override (long inputs)
	Name       string `json:"name"`
	Corruption string `json:"corruption"`
	Call       Call   `json:"call"`
	BinaryOnly bool   `json:"binaryonly,omitempty"`
	ExtraArgs  []string `json:"extraargs,omitempty"` // replaces nothing; appended to the CLI arguments
	BadSuffix  string `json:"badsuffix,omitempty"` // annotation file suffix to use on the command line
	MissingFile string `json:"missingfile,omitempty"` // flag whose file argument is replaced by a non-existent path
}

// fasta corruption helpers: recs = name,seq pairs
func c18FastaVariants(recs []string) map[string]string {
	out := map[string]string{}
	n := len(recs) / 2
	pos := map[string]int{"first": 0, "middle": n / 2, "last": n - 1}
	for pn, i := range pos {
		if n == 1 && pn != "first" {
			continue
		}
		mut := func(f func(s string) string) string {
			r := append([]string{}, recs...)
			r[2*i+1] = f(r[2*i+1])
			return fastaOf(r...)
		}
		out["short-row-"+pn] = mut(func(s string) string { return s[:len(s)-1] })
		out["long-row-"+pn] = mut(func(s string) string { return s + "A" })
		out["non-iupac-symbol-"+pn] = mut(func(s string) string { return s[:len(s)/2] + "x" + s[len(s)/2+1:] })
	}
	out["empty-file"] = ""
	out["header-without-any-sequence"] = ">" + recs[0] + "\n"
	var hs []string
	for i := 0; i < len(recs); i += 2 {
		hs = append(hs, ">"+recs[i])
	}
	out["headers-only"] = strings.Join(hs, "\n") + "\n"
	out["no-leading-header"] = strings.TrimPrefix(fastaOf(recs...), ">"+recs[0]+"\n")
	return out
}

func c18Items() []c18Item {
	var items []c18Item
	add := func(cmd, corr string, c Call) {
		if c.Threads == 0 {
			c.Threads = 2
		}
		c.NCPU = 2
		items = append(items, c18Item{Name: cmd + "/" + corr, Corruption: corr, Call: c})
	}
	ref6 := fastaOf("ref", "ACGTAC")
	aln := []string{"s0", "ACGTAC", "s1", "CCGTAC", "s2", "ACGTAA"}
	// ---- snps, list: alignment and reference
	for _, cmd := range []string{"snps", "list"} {
		base := Call{Cmd: cmd, Ref: ref6, Msa: fastaOf(aln...)}
		for k, v := range c18FastaVariants(aln) {
			c := base
			c.Msa = v
			add(cmd, "alignment:"+k, c)
		}
		for k, v := range map[string]string{"reference-wider": fastaOf("ref", "ACGTACG"), "reference-narrower": fastaOf("ref", "ACGTA"), "two-records-in-reference": fastaOf("ref", "ACGTAC", "r2", "ACGTAC"), "reference-empty-file": "", "reference-non-iupac": fastaOf("ref", "ACxTAC")} {
			c := base
			c.Ref = v
			add(cmd, k, c)
		}
	}
	// ---- variants: msa + annotation
	gb := renderGenbank(g12, []Feat{{Name: "orfA", Segs: []Seg{{1, 9}}}})
	gff := renderGFF(g12, []Feat{{Name: "orfA", Segs: []Seg{{1, 9}}}}, true, true)
	maln := []string{"ref", g12, "q0", "CTGAAATAACCC", "q1", "ATGCAATAACCC", "q2", "ATGAAATAACCA"}
	for _, fmtt := range []string{"gb", "gff"} {
		anno := gb
		if fmtt == "gff" {
			anno = gff
		}
		base := Call{Cmd: "variants", Msa: fastaOf(maln...), RefID: "ref", Anno: anno, AnnoSuffix: fmtt}
		for k, v := range c18FastaVariants(maln) {
			c := base
			c.Msa = v
			add("variants-"+fmtt, "alignment:"+k, c)
		}
		c := base
		c.RefID = "nosuchrecord"
		add("variants-"+fmtt, "reference-id-not-in-msa", c)
		c = base
		c.Msa = fastaOf("ref", g12+"A", "q0", "CTGAAATAACCCA")
		add("variants-"+fmtt, "reference-wider-than-annotation", c)
		c = base
		c.Stdin = true
		c.Msa = fastaOf(maln[2:]...)
		add("variants-"+fmtt, "stdin-reference-not-first", c)
	}
	// ---- sam commands
	qs := []string{"CTGAAATAACCC", "ATGCAATAACCC", "ATGAAATAACCA"}
	var recs []SamRec
	for i, q := range qs {
		recs = append(recs, SamRec{Name: fmt.Sprintf("q%d", i), Pos: 1, Cigar: parseCigar("12M"), Seq: q})
	}
	goodSam := samText(12, recs)
	headerless := ""
	for _, r := range recs {
		headerless += r.line()
	}
	samBad := func(i int) string {
		r := append([]SamRec{}, recs...)
		r[i].Seq = r[i].Seq[:11] // sequence/CIGAR length mismatch
		return samText(12, r)
	}
	ref12 := fastaOf("ref", g12)
	for _, cmd := range []string{"toma", "topa", "samvariants"} {
		base := Call{Cmd: cmd, Sam: goodSam, Ref: ref12, Anno: gb, AnnoSuffix: "gb"}
		for k, v := range map[string]string{"empty-sam": "", "headerless-sam": headerless, "sam-header-only": samHeader(12), "sam-bad-record-first": samBad(0), "sam-bad-record-middle": samBad(1), "sam-bad-record-last": samBad(2)} {
			c := base
			c.Sam = v
			if k == "sam-header-only" {
				continue // a SAM without alignments is valid input (empty output)
			}
			add(cmd, k, c)
		}
		if cmd != "toma" {
			for k, v := range map[string]string{"two-records-in-reference": fastaOf("ref", g12, "r2", g12), "reference-empty-file": "", "reference-non-iupac": fastaOf("ref", "ATGAAxTAACCC")} {
				c := base
				c.Ref = v
				add(cmd, k, c)
			}
		}
		if cmd != "samvariants" {
			for k, w := range map[string][2]int{"window-start-0-end-5": {0, 5}, "window-end-beyond-reference": {2, 13}, "window-start-beyond-reference": {13, 0}, "window-start-greater-than-end": {7, 3}} {
				c := base
				c.Start, c.End = w[0], w[1]
				if w[0] == 0 && k == "window-start-0-end-5" {
					continue // 0 cannot be expressed in-process (0 = unset in the harness); covered through the binary below
				}
				add(cmd, k, c)
			}
		}
	}
	// ---- closest
	cq := []string{"qa", "AAAA", "qb", "AACA"}
	ct := []string{"t0", "AAAC", "t1", "AAAG", "t2", "AACA"}
	for _, n := range []int{0, 2} {
		nm := "closest"
		if n > 0 {
			nm = "closestn"
		}
		base := Call{Cmd: "closest", Query: fastaOf(cq...), Target: fastaOf(ct...), Measure: "raw", N: n}
		for k, v := range c18FastaVariants(ct) {
			c := base
			c.Target = v
			add(nm, "target:"+k, c)
		}
		for k, v := range c18FastaVariants(cq) {
			c := base
			c.Query = v
			add(nm, "query:"+k, c)
		}
		c := base
		c.Target = fastaOf("t0", "AAACA", "t1", "AAAGA", "t2", "AACAA")
		add(nm, "query-and-target-widths-differ", c)
	}
	// ---- topranking
	uref := fastaOf("r", "AAAA")
	uq := []string{"qa", "AACA", "qb", "ACAA"}
	ut := []string{"t0", "AAAA", "t1", "AACC", "t2", "ACCA"}
	toCSV := func(msa string) string {
		c := Call{Cmd: "list", Ref: uref, Msa: msa, NCPU: 1}
		o := c.Canon()
		if o.Outcome != "returned" || o.HasErr {
			engine.EngineError("updown list failed while preparing CSV input: %v", o)
		}
		return o.Out
	}
	baseFF := Call{Cmd: "topranking", Query: fastaOf(uq...), Target: fastaOf(ut...), Ref: uref, QType: "fasta", TType: "fasta", SizeTotal: 3}
	for k, v := range c18FastaVariants(ut) {
		c := baseFF
		c.Target = v
		add("topranking", "target:"+k, c)
	}
	for k, v := range c18FastaVariants(uq) {
		c := baseFF
		c.Query = v
		add("topranking", "query:"+k, c)
	}
	for k, v := range map[string]string{"two-records-in-reference": fastaOf("r", "AAAA", "r2", "AAAA"), "reference-wider": fastaOf("r", "AAAAA"), "reference-empty-file": ""} {
		c := baseFF
		c.Ref = v
		add("topranking", k, c)
	}
	c := baseFF
	c.SizeTotal = 0
	add("topranking", "no-size-or-dist-option", c)
	qcsv, tcsv := toCSV(fastaOf(uq...)), toCSV(fastaOf(ut...))
	baseCC := Call{Cmd: "topranking", Query: qcsv, Target: tcsv, QType: "csv", TType: "csv", SizeTotal: 3}
	csvBad := func(csv string) map[string]string {
		lines := strings.Split(strings.TrimSuffix(csv, "\n"), "\n")
		out := map[string]string{"empty-csv": "", "csv-wrong-header": "id,snps,amb\n" + strings.Join(lines[1:], "\n") + "\n", "csv-header-only": lines[0] + "\n"}
		for pn, i := range map[string]int{"first": 1, "last": len(lines) - 1} {
			l := append([]string{}, lines...)
			f := strings.Split(l[i], ",")
			l[i] = strings.Join(f[:3], ",")
			out["csv-short-row-"+pn] = strings.Join(l, "\n") + "\n"
			l2 := append([]string{}, lines...)
			f2 := strings.Split(l2[i], ",")
			f2[4] = "notanumber"
			l2[i] = strings.Join(f2, ",")
			out["csv-bad-count-"+pn] = strings.Join(l2, "\n") + "\n"
		}
		return out
	}
	for k, v := range csvBad(qcsv) {
		c := baseCC
		c.Query = v
		add("topranking-csv", "query:"+k, c)
	}
	for k, v := range csvBad(tcsv) {
		if k == "csv-header-only" {
			continue // a target CSV with a header and no rows is a valid, empty target set
		}
		c := baseCC
		c.Target = v
		add("topranking-csv", "target:"+k, c)
	}
	// ---- corruption late in an input that is longer than the channel buffers (50+threads, NumCPU+50):
	// the error has to get through while the stages are blocked on full buffers
	{
		big := []string{}
		for i := 0; i < 60; i++ {
			q := []byte(g12)
			q[i%12] = "ACGT"[(i/12+1+strings.IndexByte("ACGT", g12[i%12]))%4]
			big = append(big, fmt.Sprintf("q%02d", i), string(q))
		}
		for _, at := range []int{54, 59} {
			bad := append([]string{}, big...)
			bad[2*at+1] = bad[2*at+1][:11]
			for _, cmd := range []string{"snps", "list"} {
				items = append(items, c18Item{Name: fmt.Sprintf("%s/alignment:short-row-%d-of-60", cmd, at+1), Corruption: fmt.Sprintf("alignment:short-row-%d-of-60", at+1), Mode: "D1M0",
					Call: Call{Cmd: cmd, Ref: fastaOf("ref", g12), Msa: fastaOf(bad...), Threads: 2, NCPU: 2}})
			}
			items = append(items, c18Item{Name: fmt.Sprintf("variants-gb/alignment:short-row-%d-of-60", at+1), Corruption: fmt.Sprintf("alignment:short-row-%d-of-60", at+1), Mode: "D1M0",
				Call: Call{Cmd: "variants", Msa: fastaOf(append([]string{"ref", g12}, bad...)...), RefID: "ref", Anno: gb, AnnoSuffix: "gb", Threads: 2, NCPU: 2}})
			var srecs []SamRec
			for i := 0; i < 60; i++ {
				srecs = append(srecs, SamRec{Name: big[2*i], Pos: 1, Cigar: parseCigar("12M"), Seq: big[2*i+1]})
			}
			srecs[at].Seq = srecs[at].Seq[:11]
			items = append(items, c18Item{Name: fmt.Sprintf("toma/sam-bad-record-%d-of-60", at+1), Corruption: fmt.Sprintf("sam-bad-record-%d-of-60", at+1), Mode: "D1M0",
				Call: Call{Cmd: "toma", Sam: samText(12, srecs), Threads: 2, NCPU: 2}})
		}
	}
	// ---- binary-only items
	bin := func(cmd, corr string, c Call, it c18Item) {
		it.Name, it.Corruption, it.Call, it.BinaryOnly = cmd+"/"+corr, corr, c, true
		items = append(items, it)
	}
	bin("variants", "unknown-annotation-suffix", Call{Cmd: "variants", Msa: fastaOf(maln...), RefID: "ref", Anno: gb, AnnoSuffix: "gb"}, c18Item{BadSuffix: "txt"})
	bin("samvariants", "unknown-annotation-suffix", Call{Cmd: "samvariants", Sam: goodSam, Ref: ref12, Anno: gb, AnnoSuffix: "gb"}, c18Item{BadSuffix: "gbk"})
	bin("samvariants", "unknown-annotation-suffix-gff3", Call{Cmd: "samvariants", Sam: goodSam, Ref: ref12, Anno: gff, AnnoSuffix: "gff"}, c18Item{BadSuffix: "gff3"})
	bin("toma", "window-start-0", Call{Cmd: "toma", Sam: goodSam}, c18Item{ExtraArgs: []string{"--start", "0"}})
	bin("toma", "window-start-0-pad", Call{Cmd: "toma", Sam: goodSam, Pad: true}, c18Item{ExtraArgs: []string{"--start", "0"}})
	bin("toma", "window-end-0", Call{Cmd: "toma", Sam: goodSam}, c18Item{ExtraArgs: []string{"--end", "0"}})
	bin("toma", "window-start-negative-pad", Call{Cmd: "toma", Sam: goodSam, Pad: true}, c18Item{ExtraArgs: []string{"--start", "-3"}})
	bin("topa", "window-start-0", Call{Cmd: "topa", Sam: goodSam, Ref: ref12}, c18Item{ExtraArgs: []string{"--start", "0"}})
	for _, mf := range []struct{ cmd, flag string; c Call }{
		{"snps", "-q", Call{Cmd: "snps", Ref: ref6, Msa: fastaOf(aln...)}},
		{"snps", "-r", Call{Cmd: "snps", Ref: ref6, Msa: fastaOf(aln...)}},
		{"toma", "-s", Call{Cmd: "toma", Sam: goodSam}},
		{"topa", "-r", Call{Cmd: "topa", Sam: goodSam, Ref: ref12}},
		{"variants", "-a", Call{Cmd: "variants", Msa: fastaOf(maln...), RefID: "ref", Anno: gb, AnnoSuffix: "gb"}},
		{"closest", "--target", Call{Cmd: "closest", Query: fastaOf(cq...), Target: fastaOf(ct...), Measure: "raw"}},
		{"topranking", "-t", baseFF},
		{"list", "-q", Call{Cmd: "list", Ref: ref6, Msa: fastaOf(aln...)}},
	} {
		bin(mf.cmd, "missing-file"+mf.flag, mf.c, c18Item{MissingFile: mf.flag})
	}
	// the corruptions above are generated from maps: fix the order (parent and workers must agree)
	sort.SliceStable(items, func(i, j int) bool { return items[i].Name < items[j].Name })
	return items
}

func (it c18Item) scenario(mode string) Scenario {
	if it.Mode != "" {
		mode = it.Mode
	}
	return Scenario{Name: it.Name, Family: strings.SplitN(it.Name, "/", 2)[0], Call: it.Call, Mode: mode}
}

func c18Judge(sc *Scenario, st *engine.Stats, res *engine.JobResult) {
	corr := strings.TrimSuffix(strings.SplitN(sc.Name, "/", 2)[1], "/t3")
	for obs, n := range st.Outcomes {
		switch {
		case strings.HasPrefix(obs, "returned|err=true"):
			res.Nontrivial += n
		case strings.HasPrefix(obs, "panic"):
			res.Nontrivial += n
			res.Count("executions_ending_in_panic (non-zero exit, accepted)", n)
		case strings.HasPrefix(obs, "returned|err=false"):
			res.Violate(sc.Family+":"+corr+":accepted", fmt.Sprintf("%s: %d execution(s) accept the invalid input and return nil: %s", sc.Name, n, obs), schedCase{Scenario: *sc, Trace: st.FirstTrace[obs], Obs: obs})
		case strings.HasPrefix(obs, "deadlock"):
			res.Violate(sc.Family+":"+corr+":hang", fmt.Sprintf("%s: %d execution(s) hang (every goroutine blocked): %s", sc.Name, n, obs), schedCase{Scenario: *sc, Trace: st.FirstTrace[obs], Obs: obs})
		}
	}
}

// c18Binary runs one item through the real binary: exit status must be non-zero.
func c18Binary(it c18Item, res *engine.JobResult) {
	args, stdin, _, cleanup := it.Call.cliArgs(0)
	defer cleanup()
	if it.BadSuffix != "" {
		for i, a := range args {
			if a == "-a" {
				np := strings.TrimSuffix(args[i+1], "."+it.Call.AnnoSuffix) + "." + it.BadSuffix
				renameFile(args[i+1], np)
				args[i+1] = np
			}
		}
	}
	if it.MissingFile != "" {
		for i, a := range args {
			if a == it.MissingFile {
				args[i+1] = args[i+1] + ".does-not-exist"
			}
		}
	}
	args = append(args, it.ExtraArgs...)
	r := engine.CLI(stdin, 120*time.Second, nil, args...)
	res.Evals++
	res.Validated++
	fam := strings.SplitN(it.Name, "/", 2)[0]
	switch {
	case r.TimedOut:
		res.Violate(fam+":"+it.Corruption+":binary-hangs", fmt.Sprintf("%s: the real binary does not terminate within 30 s (normal run time: milliseconds)", it.Name), it)
	case r.Exit == 0:
		res.Violate(fam+":"+it.Corruption+":binary-exit-0", fmt.Sprintf("%s: the real binary exits 0; stdout %q", it.Name, r.Stdout), it)
	default:
		res.Nontrivial++
	}
}

func init() {
	var items []c18Item
	var scens []Scenario
	get := func(tier string) ([]c18Item, []Scenario) {
		if items == nil {
			items = c18Items()
			mode := "U"
			for _, it := range items {
				if !it.BinaryOnly {
					scens = append(scens, it.scenario(mode))
				}
			}
			if tier == "thorough" {
				for _, it := range items {
					if !it.BinaryOnly {
						if it.Mode != "" {
							continue
						}
						sc := it.scenario(mode)
						sc.Name += "/t3"
						sc.Call.Threads, sc.Call.NCPU = 3, 3
						scens = append(scens, sc)
					}
				}
			}
		}
		return items, scens
	}
	register(&Prop{
		ID:    "C18",
		Level: "model_checking",
		Rule: "for each command a valid 3-record base input and each listed corruption at each position it can take (short/long row and non-IUPAC symbol in the first/middle/last record of each FASTA input; empty file; no leading header; empty, header-less and malformed-record SAM; reference wider/narrower, with two records, empty, or with a bad symbol; query/target widths differ; empty CSV, wrong header, header only, short row, bad count; windows beyond the reference or start > end; reference ID absent; stdin reference not first; topranking without size/dist option; a short row / bad SAM record at position 55 or 60 of a 60-record input, beyond the channel buffers, explored with <=1 non-default scheduling choice): every execution of the real entry point (2 workers; thorough also 3), all interleavings and map orders, pruned only by happens-before equivalence, under the controlled scheduler must end in returned(non-nil error) (or a panic = exit status 2) - returned(nil) and deadlock are violations; then every item, plus the command-line-only ones (unknown annotation suffix, window 0, missing files), through the real binary: exit status must be non-zero within 30 s. " +
			"A case is one execution or one binary run; non-trivial = refused; each generated once",
		Assumptions: []string{
			"a panic is counted as refusal for this property (exit status 2); panics on malformed FASTA are C16's subject",
			"the 30 s limit on the real binary only confirms hangs the explorer finds as exact deadlocks",
			"a SAM file with a header and no alignments, and a target CSV with a header and no rows, are treated as valid (empty) inputs",
		},
		Bounds: func(tier string) map[string]interface{} {
			it, sc := get(tier)
			return map[string]interface{}{"corrupted_inputs": len(it), "explored_in_process": len(sc), "mode": "U (unbounded, happens-before pruned)", "workers": map[string][]int{"quick": {2}, "thorough": {2, 3}}[tier]}
		},
		Plan: func(tier string) ([]string, *engine.JobResult) {
			it, sc := get(tier)
			jobs, pre := planSched(sc, 1, c18Judge)
			for i := 0; i < len(it); i += 8 {
				jobs = append(jobs, fmt.Sprintf("bin:%d", i))
			}
			pre.Sample(map[string]interface{}{"item": it[0].Name, "call": it[0].Call})
			return jobs, pre
		},
		Exec: func(tier, job string) *engine.JobResult {
			it, sc := get(tier)
			if strings.HasPrefix(job, "case:") {
				res := &engine.JobResult{Evals: 1}
				var c schedCase
				if err := json.Unmarshal([]byte(job[5:]), &c); err == nil && c.Scenario.Name != "" {
					obs := replayCase(&c)
					if strings.HasPrefix(obs, "returned|err=false") || strings.HasPrefix(obs, "deadlock") {
						res.Violate("replayed:not-refused", obs, c)
					}
					return res
				}
				var item c18Item
				mustJSON(job[5:], &item)
				c18Binary(item, res)
				return res
			}
			if strings.HasPrefix(job, "bin:") {
				res := &engine.JobResult{}
				var i0 int
				fmt.Sscanf(job, "bin:%d", &i0)
				for i := i0; i < i0+8 && i < len(it); i++ {
					c18Binary(it[i], res)
					res.States++
				}
				res.Transitions = res.States
				return res
			}
			return execSched(sc, job, c18Judge)
		},
	})
}
