package main

// Reference definitions of the raw, snp and tn93 distances and of genome completeness (C06, C07),
// written from the property statement and Tamura & Nei (1993) eq. 7.

import (
	"math"
	"sort"
)

// distModel returns the distance and whether it is defined.
func distModel(measure, q, t string) (float64, bool) {
	n, same := 0, 0
	p1, p2, tv, l := 0, 0, 0, 0
	for i := 0; i < len(q); i++ {
		mq, _ := maskOf(q[i], false)
		mt, _ := maskOf(t[i], false)
		if mq&mt == 0 {
			n++
		}
		if isACGT(q[i]) && isACGT(t[i]) {
			l++
			a, b := upper(q[i]), upper(t[i])
			switch {
			case a == b:
				same++
			case (a == 'A' && b == 'G') || (a == 'G' && b == 'A'):
				p1++
			case (a == 'C' && b == 'T') || (a == 'T' && b == 'C'):
				p2++
			default:
				tv++
			}
		}
	}
	switch measure {
	case "snp":
		return float64(n), true
	case "raw":
		if n+same == 0 {
			return 0, false
		}
		return float64(n) / float64(n+same), true
	case "tn93":
		var cA, cC, cG, cT float64
		for i := 0; i < len(t); i++ {
			switch upper(t[i]) {
			case 'A':
				cA++
			case 'C':
				cC++
			case 'G':
				cG++
			case 'T':
				cT++
			}
		}
		tot := cA + cC + cG + cT
		if tot == 0 || l == 0 {
			return 0, false
		}
		gA, gC, gG, gT := cA/tot, cC/tot, cG/tot, cT/tot
		gR, gY := gA+gG, gC+gT
		if gA == 0 || gC == 0 || gG == 0 || gT == 0 {
			return 0, false
		}
		P1, P2, Q := float64(p1)/float64(l), float64(p2)/float64(l), float64(tv)/float64(l)
		k1 := 2 * gA * gG / gR
		k2 := 2 * gT * gC / gY
		k3 := 2 * (gR*gY - gA*gG*gY/gR - gT*gC*gR/gY)
		w1 := 1 - P1/k1 - Q/(2*gR)
		w2 := 1 - P2/k2 - Q/(2*gY)
		w3 := 1 - Q/(2*gR*gY)
		if w1 <= 0 || w2 <= 0 || w3 <= 0 {
			return 0, false
		}
		return -k1*math.Log(w1) - k2*math.Log(w2) - k3*math.Log(w3), true
	}
	return 0, false
}

// completeness: sum over symbols of 12/|base set| ('N', '-', '?' = any base -> 3).
func completeness(s string) int {
	tot := 0
	for i := 0; i < len(s); i++ {
		m, ok := maskOf(s[i], false)
		if !ok {
			continue
		}
		bits := 0
		for b := 1; b <= 8; b <<= 1 {
			if m&b != 0 {
				bits++
			}
		}
		tot += 12 / bits
	}
	return tot
}

type rankedTarget struct {
	Name    string
	Idx     int
	Dist    float64
	Defined bool
	Compl   int
}

// rankTargets orders targets by (distance asc, completeness desc, file position asc); undefined
// distances last. nearTie reports two defined distances that differ by less than eps without being
// equal (the order of such a pair is not judged).
func rankTargets(measure, q string, names, seqs []string) (out []rankedTarget, nearTie bool) {
	for i := range seqs {
		d, ok := distModel(measure, q, seqs[i])
		out = append(out, rankedTarget{names[i], i, d, ok, completeness(seqs[i])})
	}
	sort.SliceStable(out, func(i, j int) bool {
		a, b := out[i], out[j]
		if a.Defined != b.Defined {
			return a.Defined
		}
		if !a.Defined {
			return false
		}
		if a.Dist != b.Dist {
			return a.Dist < b.Dist
		}
		return a.Compl > b.Compl
	})
	for i := 1; i < len(out); i++ {
		if out[i].Defined && out[i-1].Defined && out[i].Dist != out[i-1].Dist && math.Abs(out[i].Dist-out[i-1].Dist) < 1e-10 {
			nearTie = true
		}
	}
	return
}
