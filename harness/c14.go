package main

// C14 — GenBank and GFF3 descriptions of the same genes give the same mutations.
// Differential between the two annotation front-ends of the real code.

import (
	"fmt"
	"sort"
	"strings"

	"harness/engine"
)

type c14Case struct {
	Genome string `json:"genome"`
	Feats  []Feat `json:"features"`
	Via    string `json:"via"` // variants | samvariants
	Sorted bool   `json:"gffsorted,omitempty"` // GFF rows in coordinate order across features instead of grouped by feature
	AnnoRef bool  `json:"annoref,omitempty"`   // no --reference: the reference is the annotation's own sequence; one query is named like the GFF ##FASTA record
	AltCase bool  `json:"altcase,omitempty"`   // sequence letters in the other case: GenBank ORIGIN upper-case, GFF ##FASTA lower-case
	RefRow string `json:"refrow"`
	QRows  []string `json:"queryrows"`
}

// c14Genome builds a genome in which every feature's coding sequence (from its codon_start) is a
// run of sense codons ending in a stop codon, so that the GenBank form (/translation without the
// terminal stop) and the GFF3 form (translation derived from the sequence) describe the same gene.
// Positions may be shared between features or occur twice in one feature (overlapping join
// segments, as in ribosomal slippage): a small backtracking search assigns the bases.
func c14Genome(n int, feats []Feat) (string, bool) {
	type codon struct {
		pos  [3]int
		rev  bool
		stop bool
	}
	var cods []codon
	for _, f := range feats {
		all := Feat{Segs: f.Segs, Reverse: f.Reverse}.codingPositions()
		skip := f.codonStart() - 1
		if (len(all)-skip)%3 != 0 || len(all)-skip < 6 {
			return "", false
		}
		for _, p := range all {
			if p < 1 || p > n {
				return "", false
			}
		}
		cp := all[skip:]
		for k := 0; k+3 <= len(cp); k += 3 {
			cods = append(cods, codon{[3]int{cp[k], cp[k+1], cp[k+2]}, f.Reverse, k+3 == len(cp)})
		}
	}
	g := make([]byte, n+1)
	var order []int
	seen := map[int]bool{}
	for _, c := range cods {
		for _, p := range c.pos {
			if !seen[p] {
				seen[p] = true
				order = append(order, p)
			}
		}
	}
	ok := func() bool {
		for _, c := range cods {
			var b [3]byte
			full := true
			for j, p := range c.pos {
				if g[p] == 0 {
					full = false
					break
				}
				b[j] = g[p]
				if c.rev {
					b[j] = complementBase(g[p])
				}
			}
			if !full {
				continue
			}
			aa := translateCodonACGT(string(b[:]))
			if (aa == '*') != c.stop {
				return false
			}
		}
		return true
	}
	budget := 200000
	prefs := []string{"ATGC", "AGCT", "TACG", "GATC", "CTAG"}
	var rec func(k int) bool
	rec = func(k int) bool {
		budget--
		if budget < 0 {
			return false
		}
		if k == len(order) {
			return true
		}
		p := order[k]
		for _, b := range []byte(prefs[k%len(prefs)]) {
			g[p] = b
			if ok() && rec(k+1) {
				return true
			}
		}
		g[p] = 0
		return false
	}
	if !rec(0) {
		return "", false
	}
	out := make([]byte, n)
	for p := 1; p <= n; p++ {
		if g[p] == 0 {
			out[p-1] = 'C'
		} else {
			out[p-1] = g[p]
		}
	}
	return string(out), true
}

// c14Layouts enumerates the feature layouts "expressible in both formats".
func c14Layouts(tier string, f func(n int, feats []Feat)) (nodes int) {
	codingLens := []int{6, 9}
	gaps := []int{-2, -1, 0, 1, 2, 3} // negative = the second segment starts inside the first (ribosomal slippage style)
	if tier == "quick" {
		gaps = []int{-2, -1, 0, 1, 3}
	} else {
		codingLens = []int{6, 9, 12}
	}
	one := func(name string, o, coding, cs int, split, gap int, rev bool, style int) (Feat, int) {
		total := coding + cs - 1
		var segs []Seg
		end := o + total - 1
		if split == 0 {
			segs = []Seg{{o, end}}
		} else {
			segs = []Seg{{o, o + split - 1}, {o + split + gap, end + gap}}
			end += gap
		}
		return Feat{Name: name, Segs: segs, Reverse: rev, CodonStart: cs, GbStyle: style}, end
	}
	for _, coding := range codingLens {
		for cs := 1; cs <= 3; cs++ {
			total := coding + cs - 1
			for o := 1; o <= 3; o++ {
				for _, rev := range []bool{false, true} {
					for split := 0; split < total; split++ {
						gs := gaps
						if split == 0 {
							gs = []int{0}
						}
						for _, gap := range gs {
							styles := []int{0}
							if rev && split > 0 {
								styles = []int{0, 1}
							}
							for _, st := range styles {
								nodes++
								ft, end := one("geneA", o, coding, cs, split, gap, rev, st)
								f(end+2, []Feat{ft})
								if !rev && split > 0 && gap > 0 {
									// the same gene with its first coding segment downstream of the second (a feature
									// spanning the origin of a circular genome): join(b..c,a..a') / GFF rows in that order
									nodes++
									l1, l2 := ft.Segs[0].B-ft.Segs[0].A+1, ft.Segs[1].B-ft.Segs[1].A+1
									sw := ft
									sw.Segs = []Seg{{o + l2 + gap, o + l2 + gap + l1 - 1}, {o, o + l2 - 1}}
									f(end+2, []Feat{sw})
								}
								// second feature downstream on either strand, simple shapes
								if coding == 6 && (split == 0 || split == 2 || split == 4) {
									for _, rev2 := range []bool{false, true} {
										for cs2 := 1; cs2 <= 2; cs2++ {
											for _, split2 := range []int{0, 4} {
												nodes++
												g2 := 0
												if split2 > 0 {
													g2 = 2
												}
												ft2, end2 := one("geneB", end+2, 6, cs2, split2, g2, rev2, 0)
												f(end2+1, []Feat{ft, ft2})
											}
										}
									}
								}
							}
						}
					}
				}
			}
		}
	}
	// a slippage join and the shorter gene it reads through (ORF1ab / ORF1a style), both strands: in a
	// coordinate-sorted GFF the shorter gene's row sits between the two rows of the join
	for _, rev := range []bool{false, true} {
		for o := 1; o <= 3; o++ {
			for _, ov := range []int{0, 1} {
				nodes++
				ab := Feat{Name: "geneAB", Segs: []Seg{{o, o + 3}, {o + 4 - ov, o + 14 - 2*ov + ov}}, Reverse: rev}
				a := Feat{Name: "geneA", Segs: []Seg{{o, o + 8}}, Reverse: rev}
				if rev {
					e := o + 15
					ab = Feat{Name: "geneAB", Segs: []Seg{{e - 14 + 2*ov - ov, e - 4 + ov}, {e - 3, e}}, Reverse: true}
					a = Feat{Name: "geneA", Segs: []Seg{{e - 8, e}}, Reverse: true}
				}
				f(o+17, []Feat{ab, a})
			}
		}
	}
	// in-frame nested pair sharing the stop codon (ORF1a/ORF1ab style), both strands
	for _, rev := range []bool{false, true} {
		for o := 1; o <= 3; o++ {
			nodes++
			a := Feat{Name: "geneA", Segs: []Seg{{o, o + 11}}, Reverse: rev}
			b := Feat{Name: "geneB", Segs: []Seg{{o + 3, o + 11}}, Reverse: rev}
			if rev {
				b = Feat{Name: "geneB", Segs: []Seg{{o, o + 8}}, Reverse: rev}
			}
			f(o+13, []Feat{a, b})
		}
	}
	return
}

func multisetKey(list string) string {
	if list == "" {
		return ""
	}
	p := strings.Split(list, "|")
	sort.Strings(p)
	return strings.Join(p, "|")
}

func c14Queries(genome string) (rows []string, insRef string, insRows []string) {
	n := len(genome)
	for i := 0; i < n; i++ {
		for _, s := range []byte("ACGT") {
			if s == genome[i] {
				continue
			}
			b := []byte(genome)
			b[i] = s
			rows = append(rows, string(b))
		}
	}
	// deletions of 1 and 3 bases at two places
	for _, p := range []int{3, n / 2} {
		for _, L := range []int{1, 3} {
			if p+L < n {
				rows = append(rows, genome[:p]+strings.Repeat("-", L)+genome[p+L:])
			}
		}
	}
	rows = append(rows, genome)
	for _, p := range []int{4, n/2 + 1} {
		insRef = genome[:p] + "--" + genome[p:]
		insRows = append(insRows, genome[:p]+"GA"+genome[p:])
		break
	}
	return
}

func c14Run(c c14Case, format string) (Obs, map[string]string) {
	var anno string
	if format == "gff" {
		anno = renderGFF(c.Genome, c.Feats, true, true)
		if c.Sorted {
			anno = sortGFFRows(anno)
		}
		if c.AltCase {
			anno = caseAfter(anno, "##FASTA\n", strings.ToLower)
		}
	} else {
		anno = renderGenbank(c.Genome, c.Feats)
		if c.AltCase {
			anno = caseAfter(anno, "\nORIGIN\n", strings.ToUpper)
		}
	}
	var call Call
	if c.Via == "samvariants" {
		var recs []SamRec
		for i, q := range c.QRows {
			// turn the row pair into a CIGAR
			var cols []alnCol
			var seq []byte
			for k := 0; k < len(c.RefRow); k++ {
				switch {
				case c.RefRow[k] == '-':
					cols = append(cols, 'I')
					seq = append(seq, q[k])
				case q[k] == '-':
					cols = append(cols, 'D')
				default:
					cols = append(cols, 'M')
					seq = append(seq, q[k])
				}
			}
			recs = append(recs, SamRec{Name: fmt.Sprintf("q%d", i), Pos: 1, Cigar: opsOf(cols), Seq: string(seq)})
		}
		call = Call{Cmd: "samvariants", Sam: samText(len(c.Genome), recs), Ref: fastaOf("ref", c.Genome), Anno: anno, AnnoSuffix: format, Threads: 2}
		if c.AnnoRef {
			call.NoRefFile = true
		}
	} else {
		recs := []string{"ref", c.RefRow}
		if c.AnnoRef {
			recs = nil // every record of the alignment is a query, including one called "ref" like the ##FASTA record
		}
		for i, q := range c.QRows {
			name := fmt.Sprintf("q%d", i)
			if c.AnnoRef && i == 1 {
				name = "ref"
			}
			recs = append(recs, name, q)
		}
		call = Call{Cmd: "variants", Msa: fastaOf(recs...), RefID: "ref", Anno: anno, AnnoSuffix: format, Threads: 2}
		if c.AnnoRef {
			call.RefID = ""
		}
	}
	o := call.Canon()
	if o.Outcome != "returned" || o.HasErr {
		return o, nil
	}
	m, _, ok := parseVariantRows(o.Out)
	if !ok {
		o.Outcome = "unparseable"
		return o, nil
	}
	return o, m
}

func c14Cause(feats []Feat) string {
	for _, f := range feats {
		if len(f.Segs) > 1 {
			for i, ph := range f.gffPhases(true) {
				first := 0
				if f.Reverse {
					first = len(f.Segs) - 1
				}
				if i != first && ph != 0 {
					return "gb-vs-gff:continuation-segment-with-nonzero-phase"
				}
			}
		}
	}
	for _, f := range feats {
		if f.Reverse && f.codonStart() > 1 {
			return "gb-vs-gff:reverse-strand-codon-start"
		}
	}
	for _, f := range feats {
		if f.codonStart() > 1 {
			return "gb-vs-gff:codon-start"
		}
	}
	for _, f := range feats {
		if f.Reverse {
			return "gb-vs-gff:reverse-strand"
		}
	}
	for _, f := range feats {
		if len(f.Segs) > 1 {
			return "gb-vs-gff:join"
		}
	}
	return "gb-vs-gff:other"
}

func c14Check(c c14Case, res *engine.JobResult) {
	og, mg := c14Run(c, "gb")
	of, mf := c14Run(c, "gff")
	res.Evals += len(c.QRows)
	desc := fmt.Sprintf("%s, genome %s, features %s (codon_start %v, GFF phases %v)", c.Via, c.Genome, describeFeats(c.Feats), codonStarts(c.Feats), phasesOf(c.Feats))
	if mg == nil && mf == nil {
		// both refuse: not a format difference; record it
		res.Count("layouts_refused_by_both_formats", 1)
		if og.Outcome != "returned" || of.Outcome != "returned" {
			res.Violate(c14Cause(c.Feats)+":crash", fmt.Sprintf("%s: GenBank run: %s %s; GFF run: %s %s", desc, og.String(), og.Detail, of.String(), of.Detail), c)
		}
		return
	}
	if mg == nil || mf == nil {
		res.Violate(c14Cause(c.Feats), fmt.Sprintf("%s: one format is refused or crashes: GenBank run: %s %s; GFF run: %s %s", desc, og.String(), og.Detail, of.String(), of.Detail), c)
		return
	}
	// the same rows (one per query record, by name) in both runs
	if len(mg) != len(mf) {
		res.Violate("gb-vs-gff:rows", fmt.Sprintf("%s: GenBank run writes %d rows, GFF3 run %d: %q vs %q", desc, len(mg), len(mf), og.Out, of.Out), c)
		return
	}
	for i, q := range c.QRows {
		n := fmt.Sprintf("q%d", i)
		if c.AnnoRef && i == 1 && c.Via != "samvariants" {
			n = "ref"
		}
		_, ing := mg[n]
		_, inf := mf[n]
		if ing != inf {
			res.Violate("gb-vs-gff:rows", fmt.Sprintf("%s: row %q is present in one output only (GenBank %v, GFF3 %v)", desc, n, ing, inf), c)
			return
		}
		if multisetKey(mg[n]) != multisetKey(mf[n]) {
			cc := c
			cc.QRows = []string{q}
			res.Violate(c14Cause(c.Feats), fmt.Sprintf("%s: query %q: GenBank gives %q, GFF3 gives %q", desc, q, mg[n], mf[n]), cc)
			return
		}
		if mg[n] != "" {
			res.Nontrivial++
		}
	}
}

func codonStarts(fs []Feat) []int {
	var o []int
	for _, f := range fs {
		o = append(o, f.codonStart())
	}
	return o
}
func phasesOf(fs []Feat) [][]int {
	var o [][]int
	for _, f := range fs {
		o = append(o, f.gffPhases(true))
	}
	return o
}

func init() {
	register(&Prop{
		ID:    "C14",
		Level: "model_checking",
		Rule: "bounded-exhaustive differential between the GenBank and GFF3 front-ends of the real code: every layout of one gene with coding length 6 or 9 (thorough also 12), codon_start 1..3 (GFF phase 0..2), start offset 1..3, either strand, unsplit or split into two segments at every base with an intron of 1..3 bases (reverse joins in both GenBank spellings), plus a second gene downstream (either strand, codon_start 1..2, unsplit or split) and in-frame nested gene pairs sharing a stop codon; the genome is built so that every gene is sense codons + stop. Each layout is rendered as a GenBank flat file and as GFF3 (rows sharing an ID in ascending order, continuation rows carrying the phase the GFF3 specification prescribes, ##FASTA) and run through `variants` and `sam variants` on every single substitution over ACGT, four deletions, the unchanged genome and one 2-base insertion; the per-sequence multisets of records must be equal. " +
			"A case is one (layout, command, query); non-trivial = a non-empty mutation list; each generated once",
		Assumptions: []string{
			"'expressible in both formats': the leading partial codon (codon_start-1 bases) lies inside the first coding segment; GFF rows of one ID in ascending genomic order, one strand per ID (gofasta's GFF reader refuses mixed strands), forward-strand rows in coding order (ascending, or origin-spanning with the first coding segment downstream), reverse-strand rows ascending, every gene ending in a stop codon (the GenBank /translation omits it and gofasta appends '*')",
			"records sharing a position are compared as a multiset (order among them not judged)",
		},
		Bounds: func(tier string) map[string]interface{} {
			return map[string]interface{}{"coding_lengths": map[string][]int{"quick": {6, 9}, "thorough": {6, 9, 12}}[tier], "codon_start": []int{1, 2, 3}, "offsets": []int{1, 2, 3}, "intron_lengths": map[string][]int{"quick": {1, 3}, "thorough": {1, 2, 3}}[tier]}
		},
		Plan: func(tier string) ([]string, *engine.JobResult) {
			var jobs []string
			for s := 0; s < 32; s++ {
				jobs = append(jobs, fmt.Sprintf("layouts:%d/32", s))
			}
			return jobs, nil
		},
		Exec: func(tier, job string) *engine.JobResult {
			res := &engine.JobResult{}
			defer func() { res.Transitions = res.States }()
			if strings.HasPrefix(job, "case:") {
				var c c14Case
				mustJSON(job[5:], &c)
				c14Check(c, res)
				return res
			}
			var s, n int
			fmt.Sscanf(job, "layouts:%d/%d", &s, &n)
			idx := 0
			nodes := c14Layouts(tier, func(glen int, feats []Feat) {
				idx++
				if idx%n != s {
					return
				}
				genome, ok := c14Genome(glen, feats)
				for _, ft := range feats {
					// the leading partial codon must fit in the first coding segment, or no GFF3 phase can express it
					fs := ft.Segs[0]
					if ft.Reverse {
						fs = ft.Segs[len(ft.Segs)-1]
					}
					if fs.B-fs.A+1 < ft.codonStart() {
						ok = false
					}
				}
				if !ok {
					res.Count("layouts_not_constructible", 1)
					return
				}
				rows, insRef, insRows := c14Queries(genome)
				for _, via := range []string{"variants", "samvariants"} {
					c := c14Case{Genome: genome, Feats: feats, Via: via, RefRow: genome, QRows: rows}
					c14Check(c, res)
					if len(feats) > 1 {
						cs := c
						cs.Sorted = true
						c14Check(cs, res)
						res.States += len(rows)
					}
					if idx%7 == 3 {
						// no --reference: the annotation's own sequence is the reference (and nothing but it is left out of the output)
						cr := c
						cr.AnnoRef = true
						cr.QRows = rows[:len(rows)/3]
						c14Check(cr, res)
						res.States += len(cr.QRows)
					}
					if idx%5 == 0 {
						// the annotation's own sequence in the other letter case (GenBank ORIGIN upper, ##FASTA lower)
						ca := c
						ca.AltCase = true
						ca.QRows = rows[:len(rows)/3]
						c14Check(ca, res)
						res.States += len(ca.QRows)
					}
					c14Check(c14Case{Genome: genome, Feats: feats, Via: via, RefRow: insRef, QRows: insRows}, res)
					res.States += len(rows) + len(insRows)
					if idx == 33 {
						res.Sample(c14Case{Genome: genome, Feats: feats, Via: via, RefRow: genome, QRows: rows[:2]})
					}
				}
				// binding through the real binary for a slice of the layouts
				if idx%29 == engine.Seed()%29 {
					for _, format := range []string{"gb", "gff"} {
						anno := renderGenbank(genome, feats)
						if format == "gff" {
							anno = renderGFF(genome, feats, true, true)
						}
						recs := []string{"ref", genome}
						for i, q := range rows {
							recs = append(recs, fmt.Sprintf("q%d", i), q)
						}
						call := Call{Cmd: "variants", Msa: fastaOf(recs...), RefID: "ref", Anno: anno, AnnoSuffix: format, Threads: 2}
						ob, _ := call.CLI(nil, 0)
						oc := call.Canon()
						res.Validated += len(rows)
						if ob.String() != oc.String() {
							res.Violate("gb-vs-gff:binary-differs", fmt.Sprintf("real binary and instrumented build disagree on %s (%s): %s vs %s", describeFeats(feats), format, ob.String(), oc.String()), c14Case{Genome: genome, Feats: feats, Via: "variants", RefRow: genome, QRows: rows})
						}
					}
				}
			})
			if s == 0 {
				res.States += nodes
			}
			return res
		},
	})
}

// caseAfter changes the case of the sequence lines that follow marker (FASTA header lines stay as they are).
func caseAfter(text, marker string, f func(string) string) string {
	i := strings.Index(text, marker)
	if i < 0 {
		return text
	}
	lines := strings.Split(text[i+len(marker):], "\n")
	for k, l := range lines {
		if !strings.HasPrefix(l, ">") {
			lines[k] = f(l)
		}
	}
	return text[:i+len(marker)] + strings.Join(lines, "\n")
}

// sortGFFRows re-orders the feature rows of a GFF3 text by start coordinate (stable), as
// coordinate-sorted annotation files are written; header and ##FASTA stay in place.
func sortGFFRows(gff string) string {
	lines := strings.Split(strings.TrimSuffix(gff, "\n"), "\n")
	var head, rows, tail []string
	inTail := false
	for _, l := range lines {
		switch {
		case inTail || strings.HasPrefix(l, "##FASTA"):
			inTail = true
			tail = append(tail, l)
		case strings.HasPrefix(l, "#"):
			head = append(head, l)
		default:
			rows = append(rows, l)
		}
	}
	start := func(l string) int {
		var n int
		fmt.Sscan(strings.Split(l, "\t")[3], &n)
		return n
	}
	sort.SliceStable(rows, func(i, j int) bool { return start(rows[i]) < start(rows[j]) })
	return strings.Join(append(append(head, rows...), tail...), "\n") + "\n"
}
