package main

// C11 — sam variants and variants agree on the same alignment. Purely differential.

import (
	"fmt"
	"sort"
	"strings"

	"harness/engine"
)

type c11Case struct {
	Recs      []SamRec `json:"records"`
	Anno      int      `json:"annotation"` // index into c11Annos
	AppendSNP bool     `json:"appendsnp,omitempty"`
	Start     int      `json:"start,omitempty"`
	End       int      `json:"end,omitempty"`
	NoRefFile bool     `json:"noreffile,omitempty"`
}

const c11Ref = "ATGAAATAA"

type c11Anno struct {
	Name   string
	Suffix string
	Text   string
}

func c11Annos() []c11Anno {
	return []c11Anno{
		{"gb-forward", "gb", renderGenbank(c11Ref, []Feat{{Name: "orfA", Segs: []Seg{{1, 9}}}})},
		{"gb-reverse-join", "gb", renderGenbank(c11Ref, []Feat{{Name: "orfR", Segs: []Seg{{1, 3}, {7, 9}}, Reverse: true}})},
		{"gff-nested", "gff", renderGFF(c11Ref, []Feat{{Name: "orfA", Segs: []Seg{{1, 9}}}, {Name: "pepK", Segs: []Seg{{4, 6}}, GffType: "mature_protein_region_of_CDS"}}, true, true)},
		{"gb-no-cds", "gb", renderGenbank(c11Ref, nil)},
	}
}

func (c c11Case) samCall() Call {
	a := c11Annos()[c.Anno]
	return Call{Cmd: "samvariants", Sam: samText(len(c11Ref), c.Recs), Ref: fastaOf("ref", c11Ref), NoRefFile: c.NoRefFile, Anno: a.Text, AnnoSuffix: a.Suffix, AppendSNP: c.AppendSNP, Start: c.Start, End: c.End, Threads: 2}
}

func (c c11Case) msaCall(refRow string, names, rows []string) Call {
	a := c11Annos()[c.Anno]
	recs := []string{"ref", refRow}
	for i := range rows {
		recs = append(recs, names[i], rows[i])
	}
	return Call{Cmd: "variants", Msa: fastaOf(recs...), RefID: "ref", Anno: a.Text, AnnoSuffix: a.Suffix, AppendSNP: c.AppendSNP, Start: c.Start, End: c.End, Threads: 2}
}

// edgeMatch: first and last reference-consuming operator of every record is a match.
func edgeMatch(recs []SamRec) bool {
	for _, r := range recs {
		var first, last byte
		for _, o := range r.Cigar {
			if consumesRef(o.Op) {
				if first == 0 {
					first = o.Op
				}
				last = o.Op
			}
		}
		if !isMatchOp(first) || !isMatchOp(last) {
			return false
		}
	}
	return true
}

func c11Check(c c11Case, res *engine.JobResult, attribute bool) {
	groups := groupRecords(c.Recs)
	res.Evals += len(groups)
	sc := c.samCall()
	os := sc.Canon()
	single := func() {
		for _, g := range groups {
			cc := c
			cc.Recs = g.Recs
			c11Check(cc, res, false)
		}
	}
	fail := func(cause, msg string) {
		if attribute && len(groups) > 1 {
			single()
			return
		}
		res.Violate(cause, msg, c)
	}
	// the FASTA forms, from the real converters
	pa := Call{Cmd: "topa", Sam: sc.Sam, Ref: sc.Ref, Threads: 1}
	op := pa.Canon()
	tm := Call{Cmd: "toma", Sam: sc.Sam, Pad: true, Threads: 1}
	ot := tm.Canon()
	tmu := Call{Cmd: "toma", Sam: sc.Sam, Threads: 1}
	otu := tmu.Canon()
	urows, _ := parseFasta(otu.Out)
	if os.Outcome != "returned" || os.HasErr {
		if op.Outcome == "returned" && !op.HasErr {
			fail("samvariants:"+os.Outcome+"-where-conversion-works", fmt.Sprintf("sam variants fails (%s %s) on a SAM that toPairAlign converts", os.String(), os.Detail))
		}
		return
	}
	if op.Outcome != "returned" || op.HasErr || ot.Outcome != "returned" || ot.HasErr {
		fail("c11:conversion-failed", "toPairAlign/toMultiAlign fail where sam variants works: "+op.String()+" / "+ot.String())
		return
	}
	srows, sorder, ok := parseVariantRows(os.Out)
	pairs, _ := parseFasta(op.Out)
	trows, _ := parseFasta(ot.Out)
	if !ok || len(sorder) != len(groups) || len(pairs) != 2*len(groups) || len(trows) != len(groups) {
		fail("c11:structure", fmt.Sprintf("row/record counts differ: sam variants %d rows, toPairAlign %d records, toMultiAlign %d records for %d queries", len(sorder), len(pairs), len(trows), len(groups)))
		return
	}
	// group the pairs by reference row so that one variants call serves many queries
	byRef := map[string][]int{}
	for i := range groups {
		byRef[pairs[2*i].Seq] = append(byRef[pairs[2*i].Seq], i)
	}
	var refRows []string
	for r := range byRef {
		refRows = append(refRows, r)
	}
	sort.Strings(refRows)
	got1 := map[string]string{}
	for _, rr := range refRows {
		var names, rows []string
		for _, i := range byRef[rr] {
			names = append(names, pairs[2*i+1].Header)
			rows = append(rows, pairs[2*i+1].Seq)
		}
		mc := c.msaCall(rr, names, rows)
		om := mc.Canon()
		if om.Outcome != "returned" || om.HasErr {
			fail("c11:variants-fails-on-pair", fmt.Sprintf("variants fails (%s %s) on the pair written by toPairAlign (reference row %q)", om.String(), om.Detail, rr))
			return
		}
		m, _, okm := parseVariantRows(om.Out)
		if !okm {
			fail("c11:structure", "cannot parse variants output")
			return
		}
		for k, v := range m {
			got1[k] = v
		}
	}
	// second form: reference + toMultiAlign rows (queries without insertions, match-edged records)
	var names2, rows2 []string
	for i, g := range groups {
		hasIns := false
		for _, r := range g.Recs {
			for _, o := range r.Cigar {
				if o.Op == 'I' {
					hasIns = true
				}
			}
		}
		if !hasIns && !strings.Contains(trows[i].Seq, "*") {
			names2 = append(names2, g.Name)
			rows2 = append(rows2, trows[i].Seq)
		}
	}
	// third form: reference + un-padded toMultiAlign rows. There the uncovered flanks are '-', i.e.
	// terminal deletions for `variants`; the two commands agree whenever a flank neither merges with a
	// deletion (records match-edged) nor cuts a codon (flank boundaries on the annotation's codon grid,
	// which is 1,4,7 for every annotation used here, or no CDS at all)
	var names3, rows3 []string
	if otu.Outcome == "returned" && !otu.HasErr && len(urows) == len(groups) {
		for i, g := range groups {
			row := urows[i].Seq
			if strings.Contains(row, "*") || len(row) != len(c11Ref) || !edgeMatch(g.Recs) {
				continue
			}
			hasIns := false
			for _, r := range g.Recs {
				for _, o := range r.Cigar {
					if o.Op == 'I' {
						hasIns = true
					}
				}
			}
			lead := len(row) - len(strings.TrimLeft(row, "-"))
			trail := len(row) - len(strings.TrimRight(row, "-"))
			if hasIns || lead == len(row) {
				continue
			}
			if c11Annos()[c.Anno].Name != "gb-no-cds" && (lead%3 != 0 || trail%3 != 0) {
				continue
			}
			names3 = append(names3, g.Name)
			rows3 = append(rows3, row)
		}
	}
	got3 := map[string]string{}
	if len(names3) > 0 {
		mc := c.msaCall(c11Ref, names3, rows3)
		om := mc.Canon()
		if om.Outcome != "returned" || om.HasErr {
			fail("c11:variants-fails-on-toma-rows", fmt.Sprintf("variants fails (%s %s) on reference + toMultiAlign rows", om.String(), om.Detail))
			return
		}
		got3, _, _ = parseVariantRows(om.Out)
	}
	got2 := map[string]string{}
	if len(names2) > 0 {
		mc := c.msaCall(c11Ref, names2, rows2)
		om := mc.Canon()
		if om.Outcome != "returned" || om.HasErr {
			fail("c11:variants-fails-on-toma-rows", fmt.Sprintf("variants fails (%s %s) on reference + toMultiAlign rows", om.String(), om.Detail))
			return
		}
		got2, _, _ = parseVariantRows(om.Out)
	}
	for i, g := range groups {
		if sorder[i] != g.Name {
			fail("c11:row-order", "sam variants rows are not in input order")
			return
		}
		s := srows[g.Name]
		if s != "" {
			res.Nontrivial++
		}
		if v, ok := got1[g.Name]; !ok || v != s {
			if attribute && len(groups) > 1 {
				cc := c
				cc.Recs = g.Recs
				before := res.Counters["violations_total"]
				c11Check(cc, res, false)
				if res.Counters["violations_total"] == before {
					res.Violate("samvariants-vs-variants:in-context", fmt.Sprintf("query %s: sam variants %q, variants on its toPairAlign pair %q (only within this file)", g.Name, s, v), c)
				}
				continue
			}
			cause := "samvariants-vs-variants:pair"
			if c.Start != 0 || c.End != 0 {
				cause += ":window"
			}
			res.Violate(cause, fmt.Sprintf("query %s (%s), annotation %s, append-snps=%v window %d..%d: sam variants reports %q, variants on the toPairAlign pair (%q / %q) reports %q", g.Name, describeRecs(g.Recs), c11Annos()[c.Anno].Name, c.AppendSNP, c.Start, c.End, s, pairs[2*i].Seq, pairs[2*i+1].Seq, v), c)
			continue
		}
		if v, ok := got3[g.Name]; ok && v != s {
			if attribute && len(groups) > 1 {
				cc := c
				cc.Recs = g.Recs
				c11Check(cc, res, false)
				continue
			}
			res.Violate("samvariants-vs-variants:toma-row-unpadded", fmt.Sprintf("query %s (%s), annotation %s: sam variants reports %q, variants on reference + toMultiAlign row %q reports %q", g.Name, describeRecs(g.Recs), c11Annos()[c.Anno].Name, s, urows[i].Seq, v), c)
			continue
		}
		if v, ok := got2[g.Name]; ok && v != s {
			if attribute && len(groups) > 1 {
				cc := c
				cc.Recs = g.Recs
				c11Check(cc, res, false)
				continue
			}
			res.Violate("samvariants-vs-variants:toma-row", fmt.Sprintf("query %s (%s), annotation %s: sam variants reports %q, variants on reference + toMultiAlign row %q reports %q", g.Name, describeRecs(g.Recs), c11Annos()[c.Anno].Name, s, trows[i].Seq, v), c)
		}
	}
}

func c11Options() []c11Case {
	var out []c11Case
	for a := 0; a < 4; a++ {
		for _, ap := range []bool{false, true} {
			for _, w := range [][2]int{{0, 0}, {2, 5}, {3, 0}, {0, 7}} {
				for _, nf := range []bool{false, true} {
					out = append(out, c11Case{Anno: a, AppendSNP: ap, Start: w[0], End: w[1], NoRefFile: nf})
				}
			}
		}
	}
	return out
}

// seqMut: query bases with a substitution at every third query position, so that SNPs and aa
// changes occur (ACGT only: realistic assemblies)
func c11Seq(c []CigOp, pos int, k int) string {
	b := []byte(seqByRefPosOn(c, pos, c11Ref))
	for i := range b {
		if (i+k)%3 == 0 {
			b[i] = map[byte]byte{'A': 'C', 'C': 'G', 'G': 'T', 'T': 'A', 'N': 'N'}[b[i]]
		}
	}
	return string(b)
}

// seqByRefPosOn gives aligned bases the reference's base (so the unmutated query equals the reference).
func seqByRefPosOn(c []CigOp, pos int, ref string) string {
	var b []byte
	p := pos - 1
	k := 0
	for _, o := range c {
		switch o.Op {
		case 'M', '=', 'X':
			for i := 0; i < o.Len; i++ {
				b = append(b, ref[p])
				p++
			}
		case 'I', 'S':
			for i := 0; i < o.Len; i++ {
				b = append(b, "GCTA"[k%4])
				k++
			}
		case 'D', 'N':
			p += o.Len
		}
	}
	return string(b)
}

func init() {
	register(&Prop{
		ID:    "C11",
		Level: "model_checking",
		Rule: "bounded-exhaustive differential between `sam variants` and `variants` on the FASTA forms produced by the real converters: A: every valid single-record CIGAR over MIDNSHP=X with <=3 operators of length 1-2 at every POS on a 9-base reference (query bases = reference with every third base substituted); B: every master alignment over M/I/D with <=4 operators cut into two records (adjacent / separated / overlapping, both clip styles, both orders); each under a rotating choice of 64 option sets (4 annotations: GenBank forward, GenBank reverse join, GFF3 nested named features, no CDS; --append-snps; windows none,(2,5),(3,-),(-,7); reference from file or from the annotation), all 64 on a subset. " +
			"Relation 1: row of q = row of `variants` on the (reference,query) pair written by toPairAlign; relation 2 (q without insertion): = row on [reference, toMultiAlign --pad row], and on [reference, plain toMultiAlign row] where the '-' flanks cannot legitimately change the list. A case is one query under one option set; non-trivial = non-empty mutation list; each generated once",
		Assumptions: []string{
			"relation 2 uses the toMultiAlign --pad row (uncovered positions 'N', the row C02 identifies with the pair minus its insertion columns): without --pad the uncovered flanks are written '-', which `variants` reads as terminal deletions, so a SNP in a codon that is cut by the flank is legitimately reported as nuc: there and as aa: by sam variants; the plain row is therefore judged only when every record is match-edged and the flanks end on codon boundaries (or the annotation has no CDS)",
			"'non-conflicting' multi-record queries as in C02",
		},
		Bounds: func(tier string) map[string]interface{} {
			return map[string]interface{}{"reference": c11Ref, "max_operators_single": 3, "max_operators_master": 4, "option_sets": len(c11Options())}
		},
		Plan: func(tier string) ([]string, *engine.JobResult) {
			var jobs []string
			for s := 0; s < 48; s++ {
				jobs = append(jobs, fmt.Sprintf("A:%d/48", s))
			}
			for s := 0; s < 32; s++ {
				jobs = append(jobs, fmt.Sprintf("B:%d/32", s))
			}
			jobs = append(jobs, "cli")
			return jobs, nil
		},
		Exec: func(tier, job string) *engine.JobResult {
			res := &engine.JobResult{}
			defer func() { res.Transitions = res.States }()
			if strings.HasPrefix(job, "case:") {
				var c c11Case
				mustJSON(job[5:], &c)
				c11Check(c, res, true)
				return res
			}
			opts := c11Options()
			p := strings.SplitN(job, ":", 2)
			var s, n int
			if len(p) > 1 {
				fmt.Sscanf(p[1], "%d/%d", &s, &n)
			}
			const batch = 32
			switch p[0] {
			case "A":
				vs, nodes := c01Variants(3, []int{1, 2}, len(c11Ref))
				if s == 0 {
					res.States += nodes
				}
				for b0, bi := 0, 0; b0 < len(vs); b0, bi = b0+batch, bi+1 {
					if bi%n != s {
						continue
					}
					e := b0 + batch
					if e > len(vs) {
						e = len(vs)
					}
					var recs []SamRec
					for i, v := range vs[b0:e] {
						recs = append(recs, SamRec{Name: fmt.Sprintf("q%d", b0+i), Pos: v.Pos, Cigar: v.Cigar, Seq: c11Seq(v.Cigar, v.Pos, b0+i)})
					}
					nopt := 2
					if tier == "thorough" || bi%16 == 0 {
						nopt = len(opts)
					}
					for k := 0; k < nopt; k++ {
						c := opts[(bi*7+k*11)%len(opts)]
						if nopt == len(opts) {
							c = opts[k]
						}
						c.Recs = recs
						c11Check(c, res, true)
						res.States += len(recs)
						if bi == 16 && k == 5 {
							cc := c
							cc.Recs = recs[:3]
							res.Sample(cc)
						}
					}
				}
			case "B":
				var recs []SamRec
				nq, bi := 0, 0
				flush := func() {
					if nq == 0 {
						return
					}
					if bi%n == s {
						nopt := 2
						if tier == "thorough" {
							nopt = 8
						}
						for k := 0; k < nopt; k++ {
							c := opts[(bi*5+k*13)%len(opts)]
							c.Recs = recs
							c11Check(c, res, true)
							res.States += nq
						}
					}
					recs, nq = nil, 0
					bi++
				}
				c02Cuts("quick", func(rs []SamRec, kind string) {
					// the cut queries are built for an 8-base reference with letters by query index; re-seat them on the 9-base reference
					for _, r := range rs {
						if r.Pos-1+cigarRefLen(r.Cigar) > len(c11Ref) {
							return
						}
					}
					for i := range rs {
						// bases: reference-derived with substitutions, consistent between the records of a query
						full := seqByRefPosOn(stripClips(rs[i].Cigar), rs[i].Pos, c11Ref)
						b := []byte(full)
						p := rs[i].Pos
						qi := 0
						for _, o := range stripClips(rs[i].Cigar) {
							switch o.Op {
							case 'M':
								for k := 0; k < o.Len; k++ {
									if p%3 == 0 {
										b[qi] = map[byte]byte{'A': 'C', 'C': 'G', 'G': 'T', 'T': 'A'}[b[qi]]
									}
									p++
									qi++
								}
							case 'I':
								qi += o.Len
							case 'D':
								p += o.Len
							}
						}
						rs[i].Seq = padClips(rs[i].Cigar, string(b))
					}
					recs = append(recs, rs...)
					nq++
					if nq == batch {
						flush()
					}
				})
				flush()
			case "cli":
				// bind the sam variants side to the real binary on the quick slice
				vs, _ := c01Variants(3, []int{1, 2}, len(c11Ref))
				for b0 := (engine.Seed() % 13) * batch; b0 < len(vs); b0 += 13 * batch {
					e := b0 + batch
					if e > len(vs) {
						e = len(vs)
					}
					var recs []SamRec
					for i, v := range vs[b0:e] {
						recs = append(recs, SamRec{Name: fmt.Sprintf("q%d", b0+i), Pos: v.Pos, Cigar: v.Cigar, Seq: c11Seq(v.Cigar, v.Pos, b0+i)})
					}
					c := opts[(b0/batch)%len(opts)]
					c.Recs = recs
					call := c.samCall()
					ob, _ := call.CLI(nil, 2)
					oc := call.Canon()
					res.Evals += len(recs)
					res.Validated += len(recs)
					if ob.String() != oc.String() {
						res.Violate("c11:binary-differs", "real binary and instrumented build disagree on sam variants: "+firstDiff(ob.Out, oc.Out)+" "+ob.Err+ob.Detail, c)
					}
				}
			}
			return res
		},
	})
}

func stripClips(c []CigOp) []CigOp {
	var o []CigOp
	for _, x := range c {
		if x.Op != 'H' && x.Op != 'S' {
			o = append(o, x)
		}
	}
	return o
}

// padClips adds filler bases for soft clips around the aligned part.
func padClips(c []CigOp, aligned string) string {
	s := aligned
	if len(c) > 0 && c[0].Op == 'S' {
		s = strings.Repeat("T", c[0].Len) + s
	}
	if len(c) > 1 && c[len(c)-1].Op == 'S' {
		s = s + strings.Repeat("T", c[len(c)-1].Len)
	}
	return s
}
