#!/bin/bash
# Rebuilds, from the repository's current working tree, everything a check needs:
#   $BUILD/vinstr         instrumenter
#   $BUILD/instr/         instrumented copies of /repo/pkg/** + overlay.json
#   $BUILD/vcheck         harness linked against the instrumented gofasta (controlled scheduler)
#   $BUILD/gofasta        the real CLI binary (uninstrumented)
# Skips the work when nothing changed since the last build (content hash of all inputs).
set -u
export GOFLAGS=-mod=mod GOPROXY=off GOSUMDB=off GOTOOLCHAIN=local
V=$(cd "$(dirname "$0")" && pwd)
REPO=${VERIF_REPO:-/repo}
BUILD=${VERIF_BUILD:-$V/build}
mkdir -p "$BUILD"
exec 9>"$BUILD/.lock"
flock 9
stamp() {
  { find "$REPO" -path "$REPO/.git" -prune -o -type f \( -name '*.go' -o -name go.mod -o -name go.sum \) -print0 | sort -z | xargs -0 sha256sum
    find "$V/harness" "$V/shim" "$V/tools" -type f \( -name '*.go' -o -name go.mod -o -name go.sum \) -print0 | sort -z | xargs -0 sha256sum
    echo "$REPO${VERIF_TAGS:-}"; go version; } | sha256sum | cut -d' ' -f1
}
S=$(stamp)
if [ -f "$BUILD/stamp" ] && [ "$(cat "$BUILD/stamp")" = "$S" ] && [ -x "$BUILD/vcheck" ] && [ -x "$BUILD/gofasta" ]; then
  exit 0
fi
rm -f "$BUILD/stamp"
fail() { echo "BUILD-ERROR $*"; exit 2; }
# 1. instrumenter
if [ ! -x "$BUILD/vinstr" ] || [ "$V/tools/vinstr/main.go" -nt "$BUILD/vinstr" ]; then
  (cd "$V/tools/vinstr" && go build -o "$BUILD/vinstr" .) || fail "cannot build vinstr"
fi
# 2. instrument the working tree
rm -rf "$BUILD/instr"
"$BUILD/vinstr" "$REPO" "$BUILD/instr" "$V/shim" >"$BUILD/vinstr.log" 2>&1 || { cat "$BUILD/vinstr.log"; fail "instrumentation failed"; }
# 3. harness (copied so that its go.mod can point at $REPO)
rm -rf "$BUILD/hsrc"; mkdir -p "$BUILD/hsrc"
cp -r "$V/harness/." "$BUILD/hsrc/"
(cd "$BUILD/hsrc" && go mod edit -replace "github.com/virus-evolution/gofasta=$REPO" && cat "$REPO/go.sum" >> go.sum && sort -u go.sum -o go.sum) || fail "go.mod"
(cd "$BUILD/hsrc" && go build ${VERIF_TAGS:+-tags $VERIF_TAGS} -overlay "$BUILD/instr/overlay.json" -o "$BUILD/vcheck" . 2>"$BUILD/build.log") || { head -50 "$BUILD/build.log"; fail "cannot build harness against the instrumented tree"; }
if [ "${VERIF_RACE:-0}" = 1 ]; then
  (cd "$BUILD/hsrc" && go build -race -overlay "$BUILD/instr/overlay_plain.json" -o "$BUILD/vcheck_race" . 2>"$BUILD/build_race.log") || { head -50 "$BUILD/build_race.log"; fail "cannot build race harness"; }
fi
# 4. the real binary
(cd "$REPO" && go build -o "$BUILD/gofasta" . 2>"$BUILD/build_gofasta.log") || { head -50 "$BUILD/build_gofasta.log"; fail "cannot build gofasta"; }
echo "$S" > "$BUILD/stamp"
exit 0
