// Package zzvs is the controlled-scheduler shim that the verification build overlays into the
// gofasta module (as github.com/virus-evolution/gofasta/pkg/zzvs). Instrumented gofasta code calls it
// before every goroutine spawn, channel operation, select, WaitGroup/Mutex operation, map iteration
// and runtime.NumCPU() query. While a controlled run is active (Run) the shim decides when each such
// operation happens; outside a run every call degrades to the bare operation.
//
// This file exists only in /verif; it is never written into /repo.
package zzvs

import (
	"bytes"
	"fmt"
	"os"
	"reflect"
	"runtime"
	"sort"
	"strconv"
	"strings"
	"sync"
	"time"
)

type opKind int

const (
	opSend opKind = iota
	opRecv
	opSelect
	opClose
	opWait   // WaitGroup.Wait
	opChoice // local data choice (map order)
	opLock   // Mutex.Lock / RWMutex.Lock
	opRLock  // RWMutex.RLock
	opShared // access to a shared package-level variable, or a sync/atomic operation
	opObject // operation on a named object (e.g. a Write to the output): ordered against the other operations on that object only
	opStart  // a spawned goroutine begins to run (goroutines run one at a time: a new one waits for the scheduler)
	opResume // the partner of a rendezvous continues (the initiating side was released first)
)

var kindName = [...]string{"send", "recv", "select", "close", "wgwait", "choice", "lock", "rlock", "shared", "object", "start", "resume"}

// SelCase describes one communication clause of a select (or the single operand of a send/recv).
type SelCase struct {
	ch   uintptr
	cap  int
	send bool
	nil_ bool
	ref  interface{} // the channel itself: keeps it alive so its address cannot be reused within a run
}

func chanInfo(ch interface{}) (uintptr, int, bool) {
	v := reflect.ValueOf(ch)
	if !v.IsValid() || v.IsNil() {
		return 0, 0, true
	}
	return v.Pointer(), v.Cap(), false
}

// CaseSend / CaseRecv build the descriptors passed to Select.
func CaseSend(ch interface{}) SelCase { p, c, n := chanInfo(ch); return SelCase{p, c, true, n, ch} }
func CaseRecv(ch interface{}) SelCase { p, c, n := chanInfo(ch); return SelCase{p, c, false, n, ch} }

type op struct {
	kind   opKind
	site   string
	cases  []SelCase // 1 for send/recv/close, n for select
	def    bool
	obj    interface{} // waitgroup / mutex
	n      int         // choice arity
	chosen int         // result handed back to the goroutine
}

type vclock map[int]uint32

func (c vclock) join(o vclock) {
	for k, v := range o {
		if c[k] < v {
			c[k] = v
		}
	}
}
func (c vclock) copy() vclock {
	n := make(vclock, len(c)+1)
	for k, v := range c {
		n[k] = v
	}
	return n
}

// G is one controlled goroutine.
type G struct {
	id     string
	num    int // index in Sched.gs (deterministic: spawn order is itself determined by the schedule, so only used inside one run)
	goid   int64
	wake   chan struct{}
	pend   *op
	parked *op // the op the goroutine itself is blocked in
	postPark bool // set when released for a rendezvous: park again right after the real channel operation
	deferred bool // its continuation (start / after-rendezvous) stays suspended until nothing else can run
	forced   bool // was deferred and had to be let go: continue without asking again
	ncont    int  // continuations of this goroutine so far
	done   bool
	killed bool
	nkids  int
	clock  vclock
	hid    uint64 // hash of the hierarchical id: schedule-independent name of this goroutine
	path   []int  // the hierarchical id as numbers
}

type chanState struct {
	ref    interface{}
	count  int
	closed bool
	clock  vclock
}

type lockState struct {
	writer  bool
	readers int
	clock   vclock
}

type wgState struct {
	n     int
	clock vclock
}

type transition struct {
	g       *G
	caseIdx int // select case (or 0); -1 = default
	partner *G  // rendezvous partner
	pcase   int
}

// Point is one choice point of an execution.
type Point struct {
	N     int    // number of alternatives
	Costs []int  // preemption cost of each alternative (Kind "sched"); nil for data choices
	Kind  string // "sched" or "map"
	Site  string
	Key   uint64 // happens-before state key after the chosen alternative has been executed
	Last  uint64 // identity of the goroutine(s) that ran last after this point (decides what counts as a preemption next)
}

// Result is what one controlled execution produced.
type Result struct {
	Outcome string // "returned", "panic", "deadlock", "engine-timeout"
	PanicV  string
	PanicG  string
	Stack   string
	Trace   []int
	Points  []Point
	Steps   int
	Blocked []string // on deadlock: "<goroutine id> <op> @<site>" of everything parked
	Leftover []string // same, for the goroutines still parked when the body returned
	Continuations []string // "<goroutine id>#<k>": every continuation point (start, after-rendezvous) of the run, in order
	Spawned int
	Goroutines []string // hierarchical ids of every goroutine of the run
}

// Sched is the state of one controlled run.
type Sched struct {
	mu      sync.Mutex
	cond    *sync.Cond
	running int
	gs      []*G
	byGoid  map[int64]*G
	chans   map[uintptr]*chanState
	wg      map[interface{}]*wgState
	locks   map[interface{}]*lockState
	last    []*G
	prefix  []int
	ncpu    int
	starve  string
	suspendG string
	suspendK int
	key     uint64
	shared  vclock // join of the clocks of all shared-memory events so far (inherited by new goroutines)
	res     Result
	// hidIdx maps the schedule-independent goroutine name hash to a small int for clocks
	sorted  []*G
}

var cur *Sched
var curMu sync.RWMutex

type killedT struct{}

func goid() int64 {
	var buf [64]byte
	n := runtime.Stack(buf[:], false)
	// "goroutine 123 ["
	b := buf[10:n]
	i := bytes.IndexByte(b, ' ')
	id, _ := strconv.ParseInt(string(b[:i]), 10, 64)
	return id
}

func me() (*Sched, *G) {
	curMu.RLock()
	s := cur
	curMu.RUnlock()
	if s == nil {
		return nil, nil
	}
	id := goid()
	s.mu.Lock()
	g := s.byGoid[id]
	s.mu.Unlock()
	if g == nil {
		return nil, nil
	}
	return s, g
}

// Active reports whether the calling goroutine belongs to a controlled run.
func Active() bool { s, _ := me(); return s != nil }

// park announces op and blocks until the scheduler grants it.
func (s *Sched) park(g *G, o *op) int {
	s.mu.Lock()
	if g.killed {
		s.mu.Unlock()
		panic(killedT{})
	}
	g.pend = o
	g.parked = o
	s.running--
	s.cond.Broadcast()
	s.mu.Unlock()
	<-g.wake
	if g.killed {
		panic(killedT{})
	}
	return o.chosen
}

// PreSend is called immediately before `ch <- v`.
func PreSend(ch interface{}, site string) {
	s, g := me()
	if s == nil {
		return
	}
	p, c, n := chanInfo(ch)
	s.park(g, &op{kind: opSend, site: site, cases: []SelCase{{p, c, true, n, ch}}})
}

// Post is called right after the real channel operation of a send, receive or select clause: after a
// rendezvous both sides park here, so each side's continuation is scheduled on its own.
func Post() {
	s, g := me()
	if s == nil || !g.postPark {
		return
	}
	g.postPark = false
	s.park(g, &op{kind: opResume, site: "after-rendezvous"})
}

// Recv replaces `<-ch`.
func Recv[T any](ch <-chan T, site string) T {
	s, g := me()
	if s != nil {
		p, c, n := chanInfo(ch)
		s.park(g, &op{kind: opRecv, site: site, cases: []SelCase{{p, c, false, n, ch}}})
	}
	v := <-ch
	if s != nil && g.postPark {
		Post()
	}
	return v
}

// Recv2 replaces `v, ok := <-ch`.
func Recv2[T any](ch <-chan T, site string) (T, bool) {
	s, g := me()
	if s != nil {
		p, c, n := chanInfo(ch)
		s.park(g, &op{kind: opRecv, site: site, cases: []SelCase{{p, c, false, n, ch}}})
	}
	v, ok := <-ch
	if s != nil && g.postPark {
		Post()
	}
	return v, ok
}

// Close replaces the builtin close(ch).
func Close[T any](ch chan<- T, site string) {
	s, g := me()
	if s != nil {
		p, c, n := chanInfo(ch)
		s.park(g, &op{kind: opClose, site: site, cases: []SelCase{{p, c, true, n, ch}}})
	}
	close(ch)
}

// Select decides which clause of a select statement runs; the caller then performs the real
// operation of that clause. -1 means the default clause.
func Select(site string, hasDefault bool, cases ...SelCase) int {
	s, g := me()
	if s == nil {
		panic("zzvs.Select outside a controlled run")
	}
	return s.park(g, &op{kind: opSelect, site: site, cases: cases, def: hasDefault})
}

// Shared is called before every statement that mentions a package-level variable written after
// initialisation, and before/after every sync/atomic operation: such statements are visible
// operations that conflict with everything (a global barrier in the happens-before relation).
func Shared(site string) {
	s, g := me()
	if s == nil {
		return
	}
	s.park(g, &op{kind: opShared, site: site})
}

// Object is a scheduling point before an operation on a named object outside the program's own
// synchronisation (the harness uses it for Writes to the command's output): operations on one object are
// totally ordered among themselves and independent of everything else.
func Object(name, site string) {
	s, g := me()
	if s == nil {
		return
	}
	s.park(g, &op{kind: opObject, site: site, obj: name})
}

// After wraps a value-returning sync/atomic call: a scheduling point after the operation.
func After[T any](v T, site string) T {
	Shared(site)
	return v
}

// Zero re-initialises a shared variable that has no initialiser.
func Zero[T any](p *T) {
	var z T
	*p = z
}

var resets []func()

// KeepState suppresses the re-initialisation of shared package-level variables at the start of the next
// runs: consecutive runs then form one operation history of the process (bounded-exhaustive input
// enumeration wants that - a result must not depend on earlier calls); exploration by replay needs the reset.
var KeepState bool

// RegisterReset registers a function restoring the shared package-level variables of one file to
// their initial values; every controlled run starts by calling all of them (executions must not
// communicate through process state).
func RegisterReset(f func()) { resets = append(resets, f) }

// Go replaces the go statement.
func Go(f func(), site string) {
	s, g := me()
	if s == nil {
		go f()
		return
	}
	s.spawn(g, f)
}

func fnv(h uint64, b string) uint64 {
	for i := 0; i < len(b); i++ {
		h ^= uint64(b[i])
		h *= 1099511628211
	}
	return h
}
func mix(h, v uint64) uint64 {
	h ^= v + 0x9e3779b97f4a7c15 + (h << 6) + (h >> 2)
	h *= 0xff51afd7ed558ccd
	h ^= h >> 33
	return h
}

func (s *Sched) spawn(parent *G, f func()) *G {
	s.mu.Lock()
	var id string
	var clk vclock
	var path []int
	if parent == nil {
		id = "0"
		clk = vclock{}
		path = []int{0}
	} else {
		id = parent.id + "." + strconv.Itoa(parent.nkids)
		path = append(append([]int{}, parent.path...), parent.nkids)
		parent.nkids++
		clk = parent.clock.copy()
	}
	child := &G{id: id, path: path, wake: make(chan struct{}, 1), clock: clk, num: len(s.gs), hid: fnv(14695981039346656037, id)}
	s.gs = append(s.gs, child)
	if parent == nil {
		s.running++
	} else {
		child.pend = &op{kind: opStart, site: "go"} // one goroutine runs at a time: the child starts when the scheduler says so
	}
	s.res.Spawned++
	s.res.Goroutines = append(s.res.Goroutines, id)
	s.mu.Unlock()
	started := make(chan struct{})
	go func() {
		child.goid = goid()
		s.mu.Lock()
		s.byGoid[child.goid] = child
		s.mu.Unlock()
		close(started)
		defer func() {
			r := recover()
			s.mu.Lock()
			if r != nil {
				if _, ok := r.(killedT); !ok && s.res.Outcome == "" {
					s.res.Outcome = "panic"
					s.res.PanicV = fmt.Sprint(r)
					s.res.PanicG = child.id
					buf := make([]byte, 4096)
					s.res.Stack = string(buf[:runtime.Stack(buf, false)])
				}
			}
			child.done = true
			child.pend = nil
			delete(s.byGoid, child.goid)
			s.running--
			s.cond.Broadcast()
			s.mu.Unlock()
		}()
		if parent != nil {
			<-child.wake
			if child.killed {
				panic(killedT{})
			}
		}
		f()
	}()
	<-started
	return child
}

// MaxPermKeys is the largest map for which every iteration order is an alternative; larger maps get
// a fixed family of orders (sorted, reversed, rotations, adjacent swaps) and the run is flagged.
const MaxPermKeys = 5

// MapOrderCapped is set (per process) when a map larger than MaxPermKeys was met in a controlled run.
var MapOrderCapped bool

// MapKeys replaces `range m`: it returns the keys of m in the order the explorer chose.
func MapKeys[K comparable, V any](m map[K]V, site string) []K {
	keys := make([]K, 0, len(m))
	for k := range m {
		keys = append(keys, k)
	}
	strs := make([]string, len(keys))
	idx := make([]int, len(keys))
	for i := range keys {
		strs[i] = fmt.Sprint(keys[i])
		idx[i] = i
	}
	sort.Slice(idx, func(i, j int) bool { return strs[idx[i]] < strs[idx[j]] })
	sorted := make([]K, len(keys))
	for i, j := range idx {
		sorted[i] = keys[j]
	}
	keys = sorted
	s, g := me()
	n := len(keys)
	if s == nil || n < 2 {
		return keys
	}
	if n <= MaxPermKeys {
		f := 1
		for i := 2; i <= n; i++ {
			f *= i
		}
		c := s.park(g, &op{kind: opChoice, site: site, n: f})
		out := make([]K, 0, n)
		rest := append([]K(nil), keys...)
		for i := n; i > 0; i-- {
			f /= i
			k := c / f
			c %= f
			out = append(out, rest[k])
			rest = append(rest[:k], rest[k+1:]...)
		}
		return out
	}
	MapOrderCapped = true
	// family: 0 sorted, 1 reversed, 2..n rotations by 1..n-1, n+1.. adjacent swaps
	c := s.park(g, &op{kind: opChoice, site: site, n: 2*n})
	out := append([]K(nil), keys...)
	switch {
	case c == 0:
	case c == 1:
		for i, j := 0, n-1; i < j; i, j = i+1, j-1 {
			out[i], out[j] = out[j], out[i]
		}
	case c <= n:
		r := c - 1
		out = append(append([]K(nil), keys[r:]...), keys[:r]...)
	default:
		i := c - n - 1
		out[i], out[i+1] = out[i+1], out[i]
	}
	return out
}

// NumCPU replaces runtime.NumCPU: inside a run it is the harness-chosen answer.
func NumCPU() int {
	curMu.RLock()
	s := cur
	curMu.RUnlock()
	if s == nil || s.ncpu == 0 {
		return runtime.NumCPU()
	}
	return s.ncpu
}

// GOMAXPROCS replaces runtime.GOMAXPROCS (recorded no-op inside a run).
func GOMAXPROCS(n int) int {
	curMu.RLock()
	s := cur
	curMu.RUnlock()
	if s == nil {
		return runtime.GOMAXPROCS(n)
	}
	return runtime.GOMAXPROCS(0)
}

// ---- WaitGroup / Mutex support (called from vsync) ----

func WGAdd(wg interface{}, d int) bool {
	s, g := me()
	if s == nil {
		return false
	}
	s.mu.Lock()
	p := s.wg[wg]
	if p == nil {
		p = &wgState{clock: vclock{}}
		s.wg[wg] = p
	}
	p.n += d
	p.clock.join(g.clock)
	neg := p.n < 0
	s.mu.Unlock()
	if neg {
		panic("sync: negative WaitGroup counter")
	}
	return true
}

func WGWait(wg interface{}, site string) bool {
	s, g := me()
	if s == nil {
		return false
	}
	s.park(g, &op{kind: opWait, site: site, obj: wg})
	return true
}

func Lock(m interface{}, site string) bool {
	s, g := me()
	if s == nil {
		return false
	}
	s.park(g, &op{kind: opLock, site: site, obj: m})
	return true
}
func RLock(m interface{}, site string) bool {
	s, g := me()
	if s == nil {
		return false
	}
	s.park(g, &op{kind: opRLock, site: site, obj: m})
	return true
}
func Unlock(m interface{}) bool {
	s, g := me()
	if s == nil {
		return false
	}
	s.mu.Lock()
	l := s.lk(m)
	bad := !l.writer
	l.writer = false
	l.clock.join(g.clock)
	s.mu.Unlock()
	if bad {
		panic("sync: unlock of unlocked mutex")
	}
	return true
}
func RUnlock(m interface{}) bool {
	s, g := me()
	if s == nil {
		return false
	}
	s.mu.Lock()
	l := s.lk(m)
	bad := l.readers <= 0
	l.readers--
	l.clock.join(g.clock)
	s.mu.Unlock()
	if bad {
		panic("sync: RUnlock of unlocked RWMutex")
	}
	return true
}

func (s *Sched) lk(m interface{}) *lockState {
	l := s.locks[m]
	if l == nil {
		l = &lockState{clock: vclock{}}
		s.locks[m] = l
	}
	return l
}

// ---- scheduler loop ----

func (s *Sched) cs(sc SelCase) *chanState {
	c := s.chans[sc.ch]
	if c == nil {
		c = &chanState{clock: vclock{}, ref: sc.ref}
		s.chans[sc.ch] = c
	}
	return c
}

// ordered returns the goroutines sorted by hierarchical id (spawn order itself can depend on timing
// when two goroutines run between scheduling points, ids cannot).
func (s *Sched) ordered() []*G {
	if len(s.sorted) != len(s.gs) {
		s.sorted = append(s.sorted[:0], s.gs...)
		sort.Slice(s.sorted, func(i, j int) bool { return idLess(s.sorted[i].path, s.sorted[j].path) })
	}
	return s.sorted
}

func idLess(a, b []int) bool {
	for i := 0; i < len(a) && i < len(b); i++ {
		if a[i] != b[i] {
			return a[i] < b[i]
		}
	}
	return len(a) < len(b)
}

func (s *Sched) enabled() []transition {
	var ts []transition
	gs := s.ordered()
	for _, g := range gs {
		o := g.pend
		if g.done || o == nil {
			continue
		}
		switch o.kind {
		case opChoice:
			// local choice: handled eagerly elsewhere
		case opWait:
			if p := s.wg[o.obj]; p == nil || p.n == 0 {
				ts = append(ts, transition{g: g})
			}
		case opLock:
			if l := s.lk(o.obj); !l.writer && l.readers == 0 {
				ts = append(ts, transition{g: g})
			}
		case opRLock:
			if l := s.lk(o.obj); !l.writer {
				ts = append(ts, transition{g: g})
			}
		case opClose, opShared, opObject:
			ts = append(ts, transition{g: g})
		case opSend, opRecv, opSelect:
			any := false
			for ci, c := range o.cases {
				if c.nil_ {
					continue
				}
				st := s.cs(c)
				if c.send {
					if st.closed {
						ts = append(ts, transition{g: g, caseIdx: ci})
						any = true
					} else if c.cap > 0 {
						if st.count < c.cap {
							ts = append(ts, transition{g: g, caseIdx: ci})
							any = true
						}
					} else {
						for _, h := range gs {
							if h == g || h.done || h.pend == nil {
								continue
							}
							if h.pend.kind != opRecv && h.pend.kind != opSelect {
								continue
							}
							for pi, pc := range h.pend.cases {
								if !pc.send && !pc.nil_ && pc.ch == c.ch {
									ts = append(ts, transition{g: g, caseIdx: ci, partner: h, pcase: pi})
									any = true
								}
							}
						}
					}
				} else {
					if st.count > 0 || st.closed {
						ts = append(ts, transition{g: g, caseIdx: ci})
						any = true
					} else if c.cap == 0 {
						// unbuffered rendezvous is listed under the sender; note it for `default`
						for _, h := range gs {
							if h == g || h.done || h.pend == nil {
								continue
							}
							if h.pend.kind != opSend && h.pend.kind != opSelect {
								continue
							}
							for _, pc := range h.pend.cases {
								if pc.send && !pc.nil_ && pc.ch == c.ch {
									any = true
								}
							}
						}
					}
				}
			}
			if o.kind == opSelect && o.def && !any {
				ts = append(ts, transition{g: g, caseIdx: -1})
			}
		}
	}
	return ts
}

func involves(t transition, g *G) bool { return t.g == g || t.partner == g }

func (s *Sched) pick(n int, costs []int, kind, site string) int {
	i := len(s.res.Trace)
	c := 0
	if i < len(s.prefix) {
		c = s.prefix[i]
		if c >= n || c < 0 {
			panic(fmt.Sprintf("zzvs: replay divergence at point %d: choice %d of %d", i, c, n))
		}
	}
	s.res.Trace = append(s.res.Trace, c)
	s.res.Points = append(s.res.Points, Point{N: n, Costs: costs, Kind: kind, Site: site})
	return c
}

func (s *Sched) waitQuiet() bool {
	deadline := time.Now().Add(Watchdog)
	s.mu.Lock()
	for s.running > 0 {
		if time.Now().After(deadline) {
			s.mu.Unlock()
			return false
		}
		s.condWaitTimeout()
	}
	s.mu.Unlock()
	return true
}

// condWaitTimeout waits on the condition variable but wakes at least every 200 ms so the watchdog
// deadline is noticed.
func (s *Sched) condWaitTimeout() {
	t := time.AfterFunc(200*time.Millisecond, func() { s.mu.Lock(); s.cond.Broadcast(); s.mu.Unlock() })
	s.cond.Wait()
	t.Stop()
}

// Watchdog bounds the wall time during which controlled goroutines may run without reaching a
// scheduling point. It only exists to turn an endless loop into outcome "engine-timeout".
var Watchdog = func() time.Duration {
	if v, err := strconv.Atoi(os.Getenv("ZZVS_WATCHDOG_S")); err == nil && v > 0 {
		return time.Duration(v) * time.Second
	}
	return 120 * time.Second
}()

func (s *Sched) release(g *G, chosen int) {
	s.mu.Lock()
	if g.parked != nil {
		g.parked.chosen = chosen
	}
	g.parked = nil
	g.pend = nil
	s.running++
	s.mu.Unlock()
	g.wake <- struct{}{}
}

// event folds one executed event of goroutine g into the state key.
func (s *Sched) event(g *G, kind opKind, site string, a, b int, partner uint64) {
	// order-independent hash of the clock
	var ch uint64
	for k, v := range g.clock {
		ch += mix(s.gs[k].hid, uint64(v))
	}
	h := mix(g.hid, uint64(g.clock[g.num]))
	h = mix(h, uint64(kind))
	h = fnv(h, site)
	h = mix(h, uint64(a+7))
	h = mix(h, uint64(b+7))
	h = mix(h, partner)
	h = mix(h, ch)
	s.key += h
}

func (s *Sched) starved(g *G) bool {
	if strings.HasSuffix(s.starve, "*") {
		p := strings.TrimSuffix(s.starve, "*")
		return g.id == p || strings.HasPrefix(g.id, p+".")
	}
	return g.id == s.starve
}

func (s *Sched) lastHash() uint64 {
	var h uint64
	for _, g := range s.last {
		h += mix(g.hid, 77)
	}
	return h
}

// Run executes body under the controlled scheduler following prefix, then choice 0 everywhere.
func Run(prefix []int, ncpu int, body func()) *Result {
	return RunStarving(prefix, "", ncpu, body)
}

// RunSuspending is Run in which the k-th continuation (start, or resumption after a rendezvous) of goroutine
// gid stays suspended for as long as anything else can run - in particular while the body returns.
func RunSuspending(prefix []int, gid string, k int, ncpu int, body func()) *Result {
	suspendNext = [2]interface{}{gid, k}
	defer func() { suspendNext = [2]interface{}{} }()
	return RunStarving(prefix, "", ncpu, body)
}

var suspendNext [2]interface{}

// RunStarving is Run with a priority policy after the prefix: the goroutine with hierarchical id
// `starve` (and, with a trailing "*", its descendants) is only scheduled when nothing else is enabled.
// The choices taken are recorded in Trace as usual, so the execution can be replayed with Run.
func RunStarving(prefix []int, starve string, ncpu int, body func()) *Result {
	if !KeepState {
		for _, f := range resets {
			f()
		}
	}
	s := &Sched{shared: vclock{}, byGoid: map[int64]*G{}, chans: map[uintptr]*chanState{}, wg: map[interface{}]*wgState{}, locks: map[interface{}]*lockState{}, prefix: prefix, ncpu: ncpu, starve: starve}
	s.cond = sync.NewCond(&s.mu)
	s.suspendK = -1
	if g, ok := suspendNext[0].(string); ok {
		s.suspendG, s.suspendK = g, suspendNext[1].(int)
	}
	curMu.Lock()
	if cur != nil {
		curMu.Unlock()
		panic("zzvs: nested Run")
	}
	cur = s
	curMu.Unlock()
	mainDone := false
	main := s.spawn(nil, func() { body(); mainDone = true })
	for {
		if !s.waitQuiet() {
			s.mu.Lock()
			if s.res.Outcome == "" {
				s.res.Outcome = "engine-timeout"
			}
			if p := os.Getenv("ZZVS_WATCHDOG_DUMP"); p != "" {
				buf := make([]byte, 1<<20)
				os.WriteFile(p, buf[:runtime.Stack(buf, true)], 0644)
			}
			s.mu.Unlock()
			// cannot unwind goroutines that never park: leave them; the caller must treat this as fatal
			curMu.Lock()
			cur = nil
			curMu.Unlock()
			r := s.res
			return &r
		}
		if s.res.Outcome == "panic" {
			break
		}
		if main.done {
			if mainDone {
				s.res.Outcome = "returned"
			}
			for _, g := range s.ordered() {
				if !g.done && g.pend != nil {
					s.res.Leftover = append(s.res.Leftover, g.id+" "+kindName[g.pend.kind]+" @"+g.pend.site)
				}
			}
			break
		}
		// eager local choices (they commute with everything else)
		progressed := false
		for _, g := range s.ordered() {
			if !g.done && g.pend != nil && g.pend.kind == opChoice {
				o := g.pend
				c := s.pick(o.n, nil, "map", o.site)
				g.clock[g.num]++
				s.event(g, opChoice, o.site, c, 0, 0)
				s.res.Points[len(s.res.Points)-1].Key = s.key
				s.res.Points[len(s.res.Points)-1].Last = s.lastHash()
				s.release(g, c)
				progressed = true
				break
			}
		}
		// local continuations: a goroutine that was just spawned, or that has just completed a rendezvous. Its
		// continuation commutes with every other transition (the code up to its next scheduling point touches
		// nothing the scheduler models) except the end of the program, so it is taken at once and is not a
		// choice point - except in a run of the suspension family (RunSuspending), where the k-th continuation
		// of one goroutine stays suspended until nothing else can run (or the body has returned).
		if !progressed {
			cand := append(append([]*G{}, s.ordered()[1:]...), main) // the body's own continuation last
			for _, g := range cand {
				if g.done || g.pend == nil || (g.pend.kind != opStart && g.pend.kind != opResume) || g.deferred {
					continue
				}
				if !g.forced && g != main {
					k := g.ncont
					g.ncont++
					s.res.Continuations = append(s.res.Continuations, g.id+"#"+strconv.Itoa(k))
					if s.suspendG == g.id && s.suspendK == k {
						g.deferred = true
						progressed = true
						break
					}
				}
				g.forced = false
				s.release(g, 0) // (who "ran last" stays as the scheduling step that led here left it)
				progressed = true
				break
			}
		}
		if progressed {
			continue
		}
		ts := s.enabled()
		if len(ts) == 0 {
			// suspended continuations must go on now
			forcedAny := false
			for _, g := range s.ordered() {
				if !g.done && g.deferred {
					g.deferred, g.forced = false, true
					forcedAny = true
				}
			}
			if forcedAny {
				continue
			}
			s.res.Outcome = "deadlock"
			for _, g := range s.ordered() {
				if !g.done && g.pend != nil {
					s.res.Blocked = append(s.res.Blocked, g.id+" "+kindName[g.pend.kind]+" @"+g.pend.site)
				}
			}
			break
		}
		// canonical order: transitions involving the goroutines that ran last come first
		inv := make([]bool, len(ts))
		lastEnabled := false
		for i, t := range ts {
			for _, l := range s.last {
				if involves(t, l) {
					inv[i] = true
					lastEnabled = true
				}
			}
		}
		order := make([]int, len(ts))
		for i := range order {
			order[i] = i
		}
		sort.SliceStable(order, func(i, j int) bool { return inv[order[i]] && !inv[order[j]] })
		ts2 := make([]transition, len(ts))
		costs := make([]int, len(ts))
		for i, j := range order {
			ts2[i] = ts[j]
			if lastEnabled && !inv[j] {
				costs[i] = 1
			}
		}
		ts = ts2
		o0 := ts[0].g.pend
		if s.starve != "" && len(s.res.Trace) >= len(s.prefix) {
			// first alternative (canonical order) that does not involve the starved goroutine
			want := 0
			for i, t := range ts {
				if !s.starved(t.g) && (t.partner == nil || !s.starved(t.partner)) {
					want = i
					break
				}
			}
			s.prefix = append(append([]int{}, s.res.Trace...), want)
		}
		c := s.pick(len(ts), costs, "sched", o0.site)
		t := ts[c]
		s.res.Steps++
		// apply to the model, update clocks, fold the event(s) into the state key
		o := t.g.pend
		g := t.g
		switch o.kind {
		case opClose:
			st := s.cs(o.cases[0])
			st.closed = true
			g.clock.join(st.clock)
			g.clock[g.num]++
			st.clock = g.clock.copy()
			s.event(g, opClose, o.site, 0, 0, 0)
		case opObject:
			l := s.lk(o.obj)
			g.clock.join(l.clock)
			g.clock[g.num]++
			l.clock = g.clock.copy()
			s.event(g, opObject, o.site, 0, 0, 0)
		case opShared:
			// global barrier: ordered against every event of every goroutine, before and after
			for _, h := range s.gs {
				g.clock.join(h.clock)
			}
			g.clock[g.num]++
			for _, h := range s.gs {
				if h != g && !h.done {
					h.clock.join(g.clock)
				}
			}
			s.shared.join(g.clock)
			s.event(g, opShared, o.site, 0, 0, 0)
		case opWait:
			if p := s.wg[o.obj]; p != nil {
				g.clock.join(p.clock)
			}
			g.clock[g.num]++
			s.event(g, opWait, o.site, 0, 0, 0)
		case opLock:
			l := s.lk(o.obj)
			l.writer = true
			g.clock.join(l.clock)
			g.clock[g.num]++
			l.clock = g.clock.copy()
			s.event(g, opLock, o.site, 0, 0, 0)
		case opRLock:
			l := s.lk(o.obj)
			l.readers++
			g.clock.join(l.clock)
			g.clock[g.num]++
			s.event(g, opRLock, o.site, 0, 0, 0)
		default:
			if t.caseIdx >= 0 {
				cse := o.cases[t.caseIdx]
				st := s.cs(cse)
				if cse.send {
					if !st.closed && cse.cap > 0 {
						st.count++
					}
				} else {
					if st.count > 0 {
						st.count--
					}
				}
				if t.partner != nil {
					p := t.partner
					g.clock.join(p.clock)
					g.clock.join(st.clock)
					g.clock[g.num]++
					g.clock[p.num]++
					p.clock = g.clock.copy()
					st.clock = g.clock.copy()
					s.event(g, o.kind, o.site, t.caseIdx, 0, p.hid)
					s.event(p, p.pend.kind, p.pend.site, t.pcase, 1, g.hid)
				} else {
					g.clock.join(st.clock)
					g.clock[g.num]++
					st.clock = g.clock.copy()
					s.event(g, o.kind, o.site, t.caseIdx, 0, 0)
				}
			} else {
				g.clock[g.num]++
				s.event(g, o.kind, o.site, -1, 0, 0)
			}
		}
		s.res.Points[len(s.res.Points)-1].Key = s.key
		s.last = s.last[:0]
		s.last = append(s.last, t.g)
		if t.partner != nil {
			s.last = append(s.last, t.partner)
		}
		s.res.Points[len(s.res.Points)-1].Last = s.lastHash()
		if t.partner != nil {
			// a rendezvous needs both sides to perform the real channel operation; each then parks again at once
			// (Post), so that the two continuations are transitions of their own: either side may run on -
			// even to the end of the program - before the other does anything
			t.partner.postPark, t.g.postPark = true, true
			s.release(t.partner, t.pcase)
		}
		s.release(t.g, t.caseIdx)
	}
	// end of execution: unwind everything still parked
	s.mu.Lock()
	for _, g := range s.gs {
		if !g.done && g.pend != nil {
			g.killed = true
			g.pend = nil
			s.running++
			g.wake <- struct{}{}
		}
	}
	s.mu.Unlock()
	s.waitQuiet()
	curMu.Lock()
	cur = nil
	curMu.Unlock()
	r := s.res
	return &r
}
