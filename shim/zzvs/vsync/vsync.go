// Package vsync stands in for "sync" in instrumented gofasta files (import sync ".../pkg/zzvs/vsync").
// WaitGroup, Mutex, RWMutex and Once are scheduler-aware inside a controlled run and behave exactly
// like their sync originals outside one.
package vsync

import (
	"sync"

	zzvs "github.com/virus-evolution/gofasta/pkg/zzvs"
)

type Pool = sync.Pool
type Map = sync.Map
type Cond = sync.Cond
type Locker = sync.Locker

func NewCond(l Locker) *Cond { return sync.NewCond(l) }

type WaitGroup struct {
	real sync.WaitGroup
}

func (w *WaitGroup) Add(d int) {
	if zzvs.WGAdd(w, d) {
		return
	}
	w.real.Add(d)
}
func (w *WaitGroup) Done() { w.Add(-1) }
func (w *WaitGroup) Wait() {
	if zzvs.WGWait(w, "wg.Wait") {
		return
	}
	w.real.Wait()
}

type Mutex struct {
	real sync.Mutex
}

func (m *Mutex) Lock() {
	if zzvs.Lock(m, "mu.Lock") {
		return
	}
	m.real.Lock()
}
func (m *Mutex) Unlock() {
	if zzvs.Unlock(m) {
		return
	}
	m.real.Unlock()
}
func (m *Mutex) TryLock() bool { return m.real.TryLock() }

type RWMutex struct {
	real sync.RWMutex
}

func (m *RWMutex) Lock() {
	if zzvs.Lock(m, "rw.Lock") {
		return
	}
	m.real.Lock()
}
func (m *RWMutex) Unlock() {
	if zzvs.Unlock(m) {
		return
	}
	m.real.Unlock()
}
func (m *RWMutex) RLock() {
	if zzvs.RLock(m, "rw.RLock") {
		return
	}
	m.real.RLock()
}
func (m *RWMutex) RUnlock() {
	if zzvs.RUnlock(m) {
		return
	}
	m.real.RUnlock()
}

type Once struct {
	m    Mutex
	done bool
}

func (o *Once) Do(f func()) {
	o.m.Lock()
	defer o.m.Unlock()
	if !o.done {
		defer func() { o.done = true }()
		f()
	}
}
