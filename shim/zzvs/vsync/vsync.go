// Package vsync stands in for "sync" in instrumented gofasta files (import sync ".../pkg/zzvs/vsync").
// WaitGroup, Mutex, RWMutex and Once are scheduler-aware inside a controlled run and behave exactly
// like their sync originals outside one.
package vsync

import (
	"sync"

	zzvs "github.com/virus-evolution/gofasta/pkg/zzvs"
)

type Cond = sync.Cond

// Pool: inside a controlled run Get and Put are scheduling points (they conflict with everything, like any
// access to shared memory) and the pool is a deterministic LIFO free list, so an object that is Put is the
// next one handed out - the reuse a real sync.Pool may or may not do, made certain. Outside a run it is a
// sync.Pool.
type Pool struct {
	New  func() any
	real sync.Pool
	mu   sync.Mutex
	free []any
}

func (p *Pool) Get() any {
	if zzvs.Active() {
		zzvs.Shared("sync.Pool.Get")
		p.mu.Lock()
		if n := len(p.free); n > 0 {
			x := p.free[n-1]
			p.free = p.free[:n-1]
			p.mu.Unlock()
			return x
		}
		p.mu.Unlock()
		if p.New != nil {
			return p.New()
		}
		return nil
	}
	x := p.real.Get()
	if x == nil && p.New != nil {
		x = p.New()
	}
	return x
}

func (p *Pool) Put(x any) {
	if zzvs.Active() {
		zzvs.Shared("sync.Pool.Put")
		p.mu.Lock()
		p.free = append(p.free, x)
		p.mu.Unlock()
		return
	}
	p.real.Put(x)
}

// Map: a sync.Map whose operations are scheduling points inside a controlled run.
type Map struct{ real sync.Map }

func (m *Map) Load(k any) (any, bool)           { zzvs.Shared("sync.Map.Load"); return m.real.Load(k) }
func (m *Map) Store(k, v any)                   { zzvs.Shared("sync.Map.Store"); m.real.Store(k, v) }
func (m *Map) Delete(k any)                     { zzvs.Shared("sync.Map.Delete"); m.real.Delete(k) }
func (m *Map) LoadOrStore(k, v any) (any, bool) { zzvs.Shared("sync.Map.LoadOrStore"); return m.real.LoadOrStore(k, v) }
func (m *Map) LoadAndDelete(k any) (any, bool)  { zzvs.Shared("sync.Map.LoadAndDelete"); return m.real.LoadAndDelete(k) }
func (m *Map) Swap(k, v any) (any, bool)        { zzvs.Shared("sync.Map.Swap"); return m.real.Swap(k, v) }
func (m *Map) CompareAndSwap(k, o, n any) bool  { zzvs.Shared("sync.Map.CompareAndSwap"); return m.real.CompareAndSwap(k, o, n) }
func (m *Map) CompareAndDelete(k, o any) bool   { zzvs.Shared("sync.Map.CompareAndDelete"); return m.real.CompareAndDelete(k, o) }
func (m *Map) Range(f func(k, v any) bool)      { zzvs.Shared("sync.Map.Range"); m.real.Range(f) }

// OnceFunc / OnceValue / OnceValues in terms of the scheduler-aware Once.
func OnceFunc(f func()) func() {
	var o Once
	return func() { o.Do(f) }
}
func OnceValue[T any](f func() T) func() T {
	var o Once
	var v T
	return func() T { o.Do(func() { v = f() }); return v }
}
func OnceValues[T1, T2 any](f func() (T1, T2)) func() (T1, T2) {
	var o Once
	var v1 T1
	var v2 T2
	return func() (T1, T2) { o.Do(func() { v1, v2 = f() }); return v1, v2 }
}
type Locker = sync.Locker

func NewCond(l Locker) *Cond { return sync.NewCond(l) }

type WaitGroup struct {
	real sync.WaitGroup
}

func (w *WaitGroup) Add(d int) {
	if zzvs.WGAdd(w, d) {
		return
	}
	w.real.Add(d)
}
func (w *WaitGroup) Done() { w.Add(-1) }
func (w *WaitGroup) Wait() {
	if zzvs.WGWait(w, "wg.Wait") {
		return
	}
	w.real.Wait()
}

type Mutex struct {
	real sync.Mutex
}

func (m *Mutex) Lock() {
	if zzvs.Lock(m, "mu.Lock") {
		return
	}
	m.real.Lock()
}
func (m *Mutex) Unlock() {
	if zzvs.Unlock(m) {
		return
	}
	m.real.Unlock()
}
func (m *Mutex) TryLock() bool { return m.real.TryLock() }

type RWMutex struct {
	real sync.RWMutex
}

func (m *RWMutex) Lock() {
	if zzvs.Lock(m, "rw.Lock") {
		return
	}
	m.real.Lock()
}
func (m *RWMutex) Unlock() {
	if zzvs.Unlock(m) {
		return
	}
	m.real.Unlock()
}
func (m *RWMutex) RLock() {
	if zzvs.RLock(m, "rw.RLock") {
		return
	}
	m.real.RLock()
}
func (m *RWMutex) RUnlock() {
	if zzvs.RUnlock(m) {
		return
	}
	m.real.RUnlock()
}

type Once struct {
	m    Mutex
	done bool
}

func (o *Once) Do(f func()) {
	o.m.Lock()
	defer o.m.Unlock()
	if !o.done {
		defer func() { o.done = true }()
		f()
	}
}
