#!/bin/bash
# usage: run_check.sh <Cxx> <quick|thorough>   |   run_check.sh replay <artefact.json>
set -u
V=$(cd "$(dirname "$0")" && pwd)
export VERIF_DIR=$V
export VERIF_BUILD=${VERIF_BUILD:-$V/build}
export VERIF_GOFASTA=$VERIF_BUILD/gofasta
export VERIF_RACE=1   # the -race harness build is used by the complementary race pass of every property with a schedule layer
"$V/build.sh" || { echo "ENGINE-ERROR build failed (see above)"; exit 2; }
cd "$V"
exec "$VERIF_BUILD/vcheck" "$@"
