#!/bin/bash
# usage: run_all.sh [tier]  — runs every claimed check once, prints one line per check
TIER=${1:-quick}
cd "$(dirname "$0")/.."
for id in $(python3 -c "import json;print(' '.join(c['property_id'] for c in json.load(open('MANIFEST.json'))['checks']))"); do
  S=$(date +%s)
  OUT=$(timeout 7200 ./run_check.sh $id $TIER 2>&1); RC=$?
  E=$(date +%s)
  echo "$id rc=$RC $((E-S))s $(echo "$OUT" | grep -c '^VIOLATION') violations $(echo "$OUT" | grep -c '^KNOWN-FINDING') known | $(echo "$OUT" | tail -1 | cut -c1-160)"
done
