#!/bin/bash
# usage: confirm_mutant.sh <patch.diff> <demo_file> <pkg_dir relative to repo> <go test -run pattern>
# Confirms in a scratch worktree of /repo HEAD: patch applies + builds + whole suite passes; the demo
# fails with the patch and passes without it. Prints CONFIRMED or the failing step. Removes the worktree.
export GOFLAGS=-mod=mod GOPROXY=off GOSUMDB=off GOTOOLCHAIN=local
P=$(readlink -f "$1"); D=$(readlink -f "$2"); PKG=$3; PAT=$4
W=$(mktemp -d /tmp/confirm_XXXX); rmdir $W
git -C /repo worktree add -f $W HEAD >/dev/null 2>&1 || { echo "worktree failed"; exit 9; }
cleanup() { git -C /repo worktree remove --force $W >/dev/null 2>&1; }
trap cleanup EXIT
cd $W
git apply "$P" || { echo "FAILED: apply"; exit 1; }
go build ./... || { echo "FAILED: build"; exit 1; }
if ! go test -vet=off -count=1 ./... > /tmp/confirm_suite.log 2>&1; then echo "FAILED: suite does not pass with mutant"; grep -v "^ok" /tmp/confirm_suite.log | head -5; exit 1; fi
cp "$D" $W/$PKG/zz_demo_test.go
if go test -vet=off -count=1 -run "$PAT" ./$PKG/ > /tmp/confirm_demo_mut.log 2>&1; then echo "FAILED: demo passes WITH mutant"; exit 1; fi
git checkout -- . 
if ! go test -vet=off -count=1 -run "$PAT" ./$PKG/ > /tmp/confirm_demo_orig.log 2>&1; then echo "FAILED: demo fails WITHOUT mutant"; tail -5 /tmp/confirm_demo_orig.log; exit 1; fi
echo "CONFIRMED $(basename $P)"
