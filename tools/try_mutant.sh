#!/bin/bash
# usage: try_mutant.sh <patch.diff> <Cxx> [tier]   — applies the patch to /repo, runs the check, reverts.
P=$1; ID=$2; TIER=${3:-quick}
cd /repo || exit 9
if [ -n "$(git status --porcelain)" ]; then echo "repo dirty"; exit 9; fi
git apply "$P" || { echo "APPLY-FAILED $P"; exit 8; }
cd /verif
OUT=$(timeout 3000 ./run_check.sh $ID $TIER 2>&1); RC=$?
git -C /repo checkout -- . 
NV=$(echo "$OUT" | grep -c '^VIOLATION')
echo "[$ID $(basename $P)] rc=$RC violations=$NV $(echo "$OUT" | grep -m2 'cause=' | cut -c1-220 | tr '\n' ' ')"
echo "$OUT" | tail -1 | cut -c1-200
