#!/bin/bash
# usage: try_mutant.sh <patch.diff> <Cxx> [tier]
# Applies the patch to a scratch worktree of /repo (never to /repo itself), runs the check against it
# (VERIF_REPO/VERIF_BUILD), prints a one-line verdict, removes the worktree.
export GOFLAGS=-mod=mod GOPROXY=off GOSUMDB=off GOTOOLCHAIN=local
P=$(readlink -f "$1"); ID=$2; TIER=${3:-quick}
V=$(cd "$(dirname "$0")/.." && pwd)
W=$(mktemp -d /tmp/trymut_XXXX); rmdir $W; B=$W.build
git -C /repo worktree add -f $W HEAD >/dev/null 2>&1 || { echo "worktree failed"; exit 9; }
trap 'git -C /repo worktree remove --force $W >/dev/null 2>&1; rm -rf $B' EXIT
(cd $W && git apply "$P") || { echo "APPLY-FAILED $P"; exit 8; }
OUT=$(cd $V && VERIF_OUT=$B VERIF_REPO=$W VERIF_BUILD=$B timeout 3000 ./run_check.sh $ID $TIER 2>&1); RC=$?
NV=$(echo "$OUT" | grep -c '^VIOLATION')
echo "[$ID $(basename $P)] rc=$RC violations=$NV causes: $(echo "$OUT" | grep 'cause=' | sed 's/^ *cause=//' | cut -d' ' -f1 | sort | uniq -c | tr '\n' ' ')"
echo "$OUT" | grep -m1 'cause=' | cut -c1-260
echo "$OUT" | tail -1 | cut -c1-200
