#!/usr/bin/env python3
"""Generates /verif/MANIFEST.json from the table below (kept in one place so it stays valid)."""
import json, os, sys
V = os.path.dirname(os.path.dirname(os.path.abspath(__file__)))
props = [json.loads(l) for l in open(os.path.join(V, "properties.jsonl"))]
ids = [p["id"] for p in props]

# id -> (category, technique, text, note, design_ref)
claimed = {}
exec(open(os.path.join(V, "tools", "claims.py")).read())

checks, na = [], []
for i in ids:
    if i in claimed:
        c = claimed[i]
        checks.append({
            "property_id": i,
            "quick_cmd": "./run_check.sh %s quick" % i,
            "thorough_cmd": "./run_check.sh %s thorough" % i,
            "evidence_file": "/verif/evidence/%s.json" % i,
            "replay_cmd_template": "./run_check.sh replay {path}",
            "engine": c["engine"],
            "level_claimed": {"category": c["category"], "text": c["text"], "design_ref": c["design_ref"]},
            "level_note": c["note"],
            "technique": c["technique"],
        })
    else:
        na.append({"property_id": i, "reason": not_claimed.get(i, "check not built yet in this session; see DESIGN.md section 3 for the planned exploration")})
m = {
    "version": 1,
    "setup_cmd": "./setup.sh",
    "hooks": {
        "guard": "verif-overlay",
        "enable": "no source hooks are committed to /repo: build.sh instruments the working tree at build time (tools/vinstr) and links it through `go build -overlay` together with the virtual scheduler-shim packages pkg/zzvs and pkg/zzvs/vsync kept in /verif/shim",
        "baseline_off_cmd": "cd /repo && GOFLAGS=-mod=mod GOPROXY=off GOSUMDB=off go test -vet=off -count=1 ./...",
        "source_commits": [],
        "add_only": True,
    },
    "engines": [
        {"name": "engine-S", "path": "shim/zzvs + tools/vinstr + harness/engine/explore.go", "serves_properties": [i for i in ids if i in claimed and (claimed[i]["engine"] == "engine-S" or i in ("C01","C02","C03","C04","C05","C06","C07","C08","C09","C10","C11","C13","C14","C15","C17"))],
         "kind_free_text": "stateless model checker for Go written for this task: controlled scheduler (one goroutine at a time) owning every goroutine start, channel operation, select, WaitGroup/Mutex/Once/Pool operation, sync/atomic operation, access to a package-level variable written after init, map iteration order and NumCPU answer of the real gofasta code; DFS by replay, unbounded with happens-before state caching or preemption-/delay-/map-deviation-bounded, plus the enumerated starvation and suspension families; sharded over 16 processes. Decides C12, C18, C19 and the schedule layers of the input-quantified properties"},
        {"name": "engine-I", "path": "harness/*.go (gen_*, ref_*, cNN.go)", "serves_properties": [i for i in ids if i in claimed and claimed[i]["engine"] == "engine-I"],
         "kind_free_text": "bounded-exhaustive enumeration of input/option shapes executed on the real entry points under the controlled scheduler (exact panic/deadlock outcomes), judged by independent Go reference models or by relations between runs of the real code; subset replayed on the real CLI binary"},
    ],
    "checks": checks,
    "not_applicable": na,
    "notes": "exit 0 = held on everything explored (KNOWN-FINDING lines possible), exit 1 + VIOLATION lines = violation, exit 2 + ENGINE-ERROR/BUILD-ERROR = machinery could not run (e.g. tree does not compile). known_findings.json lists genuine defects (open/fixed).",
}
json.dump(m, open(os.path.join(V, "MANIFEST.json"), "w"), indent=1)
print("claimed:", len(checks), "not claimed:", len(na))
