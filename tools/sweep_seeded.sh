#!/bin/bash
# Runs every seeded change against its property's quick check in a scratch worktree of /repo
# (VERIF_REPO/VERIF_BUILD point the build at it; /repo itself is not touched) and writes
# seeded/RESULTS.md. usage: sweep_seeded.sh [pattern]
export GOFLAGS=-mod=mod GOPROXY=off GOSUMDB=off GOTOOLCHAIN=local
V=$(cd "$(dirname "$0")/.." && pwd)
PAT=${1:-.}
W=/tmp/sweep_repo; B=/tmp/sweep_build
git -C /repo worktree remove --force $W >/dev/null 2>&1; rm -rf $B
git -C /repo worktree add -f $W HEAD >/dev/null 2>&1 || { echo "worktree failed"; exit 9; }
trap 'git -C /repo worktree remove --force $W >/dev/null 2>&1; rm -rf $B' EXIT
export VERIF_REPO=$W VERIF_BUILD=$B VERIF_OUT=$B
HEAD=$(git -C /repo rev-parse --short HEAD)
OUT=$V/seeded/RESULTS.md
if [ "$PAT" = "." ]; then
  { echo "# Seeded changes vs. checks"; echo; echo "Each confirmed seeded change (patch.diff) applied to a scratch worktree of /repo at $HEAD and run against the quick check of the property it breaks (\`tools/sweep_seeded.sh\`). caught = exit 1 with VIOLATION lines."; echo; echo "| seeded change | property | result | first cause reported | wall |"; echo "|---|---|---|---|---|"; } > $OUT
fi
for d in $(ls -d $V/seeded/C* | grep -E "$PAT"); do
  n=$(basename $d); prop=${n%%_*}
  (cd $W && git checkout -q -- . && git apply $d/patch.diff) || { echo "| $n | $prop | PATCH DOES NOT APPLY | | |" | tee -a $OUT; continue; }
  S=$(date +%s)
  R=$(cd $V && timeout 3000 ./run_check.sh $prop quick 2>&1); RC=$?
  E=$(date +%s)
  NV=$(echo "$R" | grep -c '^VIOLATION')
  CAUSE=$(echo "$R" | grep -m1 'cause=' | sed 's/^ *cause=//' | cut -d' ' -f1)
  RES="MISSED (rc=$RC)"; [ $RC = 1 ] && [ $NV -gt 0 ] && RES="caught"
  echo "| $n | $prop | $RES | $CAUSE | $((E-S))s |" | tee -a $OUT
done
(cd $W && git checkout -q -- .)
