// Package zzselftest: micro-programs with known sets of outcomes, used only by tools/selftest.sh to
// validate the instrumenter and the scheduler model against real Go semantics. It is copied into a
// scratch worktree of the repository (never into /repo) and instrumented like gofasta's own code.
package zzselftest

import (
	"fmt"
	"runtime"
	"sort"
	"strings"
	"sync"
)

// TwoSenders: two goroutines send on one unbuffered channel; the receiver sees either order.
func TwoSenders() string {
	ch := make(chan int)
	go func() { ch <- 1 }()
	go func() { ch <- 2 }()
	a := <-ch
	b := <-ch
	return fmt.Sprint(a, b)
}

// BufferedFIFO: one producer, one consumer, capacity 2: order always preserved.
func BufferedFIFO() string {
	ch := make(chan int, 2)
	done := make(chan string)
	go func() {
		var got []string
		for v := range ch {
			got = append(got, fmt.Sprint(v))
		}
		done <- strings.Join(got, ",")
	}()
	for i := 1; i <= 4; i++ {
		ch <- i
	}
	close(ch)
	return <-done
}

// SelectDefault: the default clause is taken iff nothing is ready.
func SelectDefault() string {
	ch := make(chan int, 1)
	r := ""
	select {
	case v := <-ch:
		r += fmt.Sprint("got", v)
	default:
		r += "empty"
	}
	ch <- 7
	select {
	case v := <-ch:
		r += fmt.Sprint(",got", v)
	default:
		r += ",empty"
	}
	return r
}

// SelectTwoReady: both cases ready: either may be chosen.
func SelectTwoReady() string {
	a := make(chan int, 1)
	b := make(chan int, 1)
	a <- 1
	b <- 2
	select {
	case v := <-a:
		return fmt.Sprint("a", v)
	case v := <-b:
		return fmt.Sprint("b", v)
	}
}

// LockOrder: classic AB/BA deadlock; completes or deadlocks depending on the schedule.
func LockOrder() string {
	var A, B sync.Mutex
	var wg sync.WaitGroup
	wg.Add(2)
	go func() {
		A.Lock()
		B.Lock()
		B.Unlock()
		A.Unlock()
		wg.Done()
	}()
	go func() {
		B.Lock()
		A.Lock()
		A.Unlock()
		B.Unlock()
		wg.Done()
	}()
	wg.Wait()
	return "done"
}

// MutexCounter: increments under a mutex: always 3.
func MutexCounter() string {
	var mu sync.Mutex
	var wg sync.WaitGroup
	n := 0
	for i := 0; i < 3; i++ {
		wg.Add(1)
		go func() {
			mu.Lock()
			n++
			mu.Unlock()
			wg.Done()
		}()
	}
	wg.Wait()
	return fmt.Sprint(n)
}

// CheckThenAct: unsynchronised-looking but channel-ordered check-then-act: a lost update is possible.
func CheckThenAct() string {
	tok := make(chan int, 1) // holds the shared value
	tok <- 0
	var wg sync.WaitGroup
	for i := 0; i < 2; i++ {
		wg.Add(1)
		go func() {
			v := <-tok // read
			tok <- v   // put back (releases)
			w := <-tok // take again
			_ = w
			tok <- v + 1 // write what we computed from the stale read
			wg.Done()
		}()
	}
	wg.Wait()
	return fmt.Sprint(<-tok)
}

// ClosedAndNil: receive from closed channel, nil channel never selected, labelled break.
func ClosedAndNil() string {
	ch := make(chan int, 3)
	var never chan int
	ch <- 1
	ch <- 2
	close(ch)
	var got []string
outer:
	for {
		select {
		case v, ok := <-ch:
			if !ok {
				break outer
			}
			got = append(got, fmt.Sprint(v))
		case v := <-never:
			got = append(got, fmt.Sprint("never", v))
		}
	}
	v, ok := <-ch
	return strings.Join(got, ",") + fmt.Sprint("|", v, ok)
}

// MapOrder: concatenates the keys of a 3-key map in iteration order: 6 outcomes.
func MapOrder() string {
	m := map[string]int{"a": 1, "b": 2, "c": 3}
	s := ""
	for k := range m {
		s += k
	}
	return s
}

// MapOrderSorted: iteration order made irrelevant by sorting: 1 outcome.
func MapOrderSorted() string {
	m := map[string]int{"a": 1, "b": 2, "c": 3}
	var ks []string
	for k, v := range m {
		ks = append(ks, fmt.Sprint(k, v))
	}
	sort.Strings(ks)
	return strings.Join(ks, "")
}

// WorkerPanics: a goroutine panics.
func WorkerPanics() string {
	done := make(chan bool)
	go func() {
		var a []int
		_ = a[3]
		done <- true
	}()
	<-done
	return "unreachable"
}

// SendOnClosed panics.
func SendOnClosed() string {
	ch := make(chan int, 1)
	close(ch)
	ch <- 1
	return "unreachable"
}

// Workers uses runtime.NumCPU for its fan-out: result lists how many workers ran.
func Workers() string {
	n := runtime.NumCPU()
	res := make(chan int, n)
	var wg sync.WaitGroup
	wg.Add(n)
	for i := 0; i < n; i++ {
		go func(i int) {
			res <- i
			wg.Done()
		}(i)
	}
	wg.Wait()
	close(res)
	c := 0
	for range res {
		c++
	}
	return fmt.Sprint("workers=", c)
}

// ForgottenReceiver: main returns while a goroutine is still blocked: not a deadlock.
func ForgottenReceiver() string {
	ch := make(chan int)
	go func() { <-ch }()
	return "returned"
}

// AllBlocked: nobody can ever proceed.
func AllBlocked() string {
	ch := make(chan int)
	<-ch
	return "unreachable"
}

// Pipeline3: reader -> 2 workers -> index-ordered writer, the shape of gofasta's pipelines.
func Pipeline3() string {
	in := make(chan int)
	out := make(chan [2]int)
	done := make(chan string)
	var wg sync.WaitGroup
	go func() {
		for i := 0; i < 3; i++ {
			in <- i
		}
		close(in)
	}()
	for w := 0; w < 2; w++ {
		wg.Add(1)
		go func() {
			for v := range in {
				out <- [2]int{v, v * v}
			}
			wg.Done()
		}()
	}
	go func() {
		wg.Wait()
		close(out)
	}()
	go func() {
		pending := map[int]int{}
		next := 0
		s := ""
		for r := range out {
			pending[r[0]] = r[1]
			for {
				v, ok := pending[next]
				if !ok {
					break
				}
				s += fmt.Sprint(v, ";")
				delete(pending, next)
				next++
			}
		}
		done <- s
	}()
	return <-done
}

// PipelineArrival: the same without re-ordering: output depends on the schedule.
func PipelineArrival() string {
	in := make(chan int)
	out := make(chan int)
	var wg sync.WaitGroup
	go func() {
		for i := 0; i < 2; i++ {
			in <- i
		}
		close(in)
	}()
	for w := 0; w < 2; w++ {
		wg.Add(1)
		go func() {
			for v := range in {
				out <- v
			}
			wg.Done()
		}()
	}
	go func() {
		wg.Wait()
		close(out)
	}()
	s := ""
	for v := range out {
		s += fmt.Sprint(v)
	}
	return s
}
