// Package zzselftest: micro-programs with known sets of outcomes, used only by tools/selftest.sh to
// validate the instrumenter and the scheduler model against real Go semantics. It is copied into a
// scratch worktree of the repository (never into /repo) and instrumented like gofasta's own code.
package zzselftest

import (
	"fmt"
	"runtime"
	"sort"
	"strings"
	"sync"
	"sync/atomic"
)

// TwoSenders: two goroutines send on one unbuffered channel; the receiver sees either order.
func TwoSenders() string {
	ch := make(chan int)
	go func() { ch <- 1 }()
	go func() { ch <- 2 }()
	a := <-ch
	b := <-ch
	return fmt.Sprint(a, b)
}

// BufferedFIFO: one producer, one consumer, capacity 2: order always preserved.
func BufferedFIFO() string {
	ch := make(chan int, 2)
	done := make(chan string)
	go func() {
		var got []string
		for v := range ch {
			got = append(got, fmt.Sprint(v))
		}
		done <- strings.Join(got, ",")
	}()
	for i := 1; i <= 4; i++ {
		ch <- i
	}
	close(ch)
	return <-done
}

// SelectDefault: the default clause is taken iff nothing is ready.
func SelectDefault() string {
	ch := make(chan int, 1)
	r := ""
	select {
	case v := <-ch:
		r += fmt.Sprint("got", v)
	default:
		r += "empty"
	}
	ch <- 7
	select {
	case v := <-ch:
		r += fmt.Sprint(",got", v)
	default:
		r += ",empty"
	}
	return r
}

// SelectTwoReady: both cases ready: either may be chosen.
func SelectTwoReady() string {
	a := make(chan int, 1)
	b := make(chan int, 1)
	a <- 1
	b <- 2
	select {
	case v := <-a:
		return fmt.Sprint("a", v)
	case v := <-b:
		return fmt.Sprint("b", v)
	}
}

// LockOrder: classic AB/BA deadlock; completes or deadlocks depending on the schedule.
func LockOrder() string {
	var A, B sync.Mutex
	var wg sync.WaitGroup
	wg.Add(2)
	go func() {
		A.Lock()
		B.Lock()
		B.Unlock()
		A.Unlock()
		wg.Done()
	}()
	go func() {
		B.Lock()
		A.Lock()
		A.Unlock()
		B.Unlock()
		wg.Done()
	}()
	wg.Wait()
	return "done"
}

// MutexCounter: increments under a mutex: always 3.
func MutexCounter() string {
	var mu sync.Mutex
	var wg sync.WaitGroup
	n := 0
	for i := 0; i < 3; i++ {
		wg.Add(1)
		go func() {
			mu.Lock()
			n++
			mu.Unlock()
			wg.Done()
		}()
	}
	wg.Wait()
	return fmt.Sprint(n)
}

// CheckThenAct: unsynchronised-looking but channel-ordered check-then-act: a lost update is possible.
func CheckThenAct() string {
	tok := make(chan int, 1) // holds the shared value
	tok <- 0
	var wg sync.WaitGroup
	for i := 0; i < 2; i++ {
		wg.Add(1)
		go func() {
			v := <-tok // read
			tok <- v   // put back (releases)
			w := <-tok // take again
			_ = w
			tok <- v + 1 // write what we computed from the stale read
			wg.Done()
		}()
	}
	wg.Wait()
	return fmt.Sprint(<-tok)
}

// ClosedAndNil: receive from closed channel, nil channel never selected, labelled break.
func ClosedAndNil() string {
	ch := make(chan int, 3)
	var never chan int
	ch <- 1
	ch <- 2
	close(ch)
	var got []string
outer:
	for {
		select {
		case v, ok := <-ch:
			if !ok {
				break outer
			}
			got = append(got, fmt.Sprint(v))
		case v := <-never:
			got = append(got, fmt.Sprint("never", v))
		}
	}
	v, ok := <-ch
	return strings.Join(got, ",") + fmt.Sprint("|", v, ok)
}

// MapOrder: concatenates the keys of a 3-key map in iteration order: 6 outcomes.
func MapOrder() string {
	m := map[string]int{"a": 1, "b": 2, "c": 3}
	s := ""
	for k := range m {
		s += k
	}
	return s
}

// MapOrderSorted: iteration order made irrelevant by sorting: 1 outcome.
func MapOrderSorted() string {
	m := map[string]int{"a": 1, "b": 2, "c": 3}
	var ks []string
	for k, v := range m {
		ks = append(ks, fmt.Sprint(k, v))
	}
	sort.Strings(ks)
	return strings.Join(ks, "")
}

// WorkerPanics: a goroutine panics.
func WorkerPanics() string {
	done := make(chan bool)
	go func() {
		var a []int
		_ = a[3]
		done <- true
	}()
	<-done
	return "unreachable"
}

// SendOnClosed panics.
func SendOnClosed() string {
	ch := make(chan int, 1)
	close(ch)
	ch <- 1
	return "unreachable"
}

// Workers uses runtime.NumCPU for its fan-out: result lists how many workers ran.
func Workers() string {
	n := runtime.NumCPU()
	res := make(chan int, n)
	var wg sync.WaitGroup
	wg.Add(n)
	for i := 0; i < n; i++ {
		go func(i int) {
			res <- i
			wg.Done()
		}(i)
	}
	wg.Wait()
	close(res)
	c := 0
	for range res {
		c++
	}
	return fmt.Sprint("workers=", c)
}

// ForgottenReceiver: main returns while a goroutine is still blocked: not a deadlock.
func ForgottenReceiver() string {
	ch := make(chan int)
	go func() { <-ch }()
	return "returned"
}

// AllBlocked: nobody can ever proceed.
func AllBlocked() string {
	ch := make(chan int)
	<-ch
	return "unreachable"
}

// Pipeline3: reader -> 2 workers -> index-ordered writer, the shape of gofasta's pipelines.
func Pipeline3() string {
	in := make(chan int)
	out := make(chan [2]int)
	done := make(chan string)
	var wg sync.WaitGroup
	go func() {
		for i := 0; i < 3; i++ {
			in <- i
		}
		close(in)
	}()
	for w := 0; w < 2; w++ {
		wg.Add(1)
		go func() {
			for v := range in {
				out <- [2]int{v, v * v}
			}
			wg.Done()
		}()
	}
	go func() {
		wg.Wait()
		close(out)
	}()
	go func() {
		pending := map[int]int{}
		next := 0
		s := ""
		for r := range out {
			pending[r[0]] = r[1]
			for {
				v, ok := pending[next]
				if !ok {
					break
				}
				s += fmt.Sprint(v, ";")
				delete(pending, next)
				next++
			}
		}
		done <- s
	}()
	return <-done
}

// PipelineArrival: the same without re-ordering: output depends on the schedule.
func PipelineArrival() string {
	in := make(chan int)
	out := make(chan int)
	var wg sync.WaitGroup
	go func() {
		for i := 0; i < 2; i++ {
			in <- i
		}
		close(in)
	}()
	for w := 0; w < 2; w++ {
		wg.Add(1)
		go func() {
			for v := range in {
				out <- v
			}
			wg.Done()
		}()
	}
	go func() {
		wg.Wait()
		close(out)
	}()
	s := ""
	for v := range out {
		s += fmt.Sprint(v)
	}
	return s
}

// ---- constructs a refactor of gofasta might plausibly use ----

type box struct {
	mu  sync.RWMutex
	val map[string]int
}

func (b *box) put(k string, v int, done chan<- struct{}) {
	b.mu.Lock()
	b.val[k] = v
	b.mu.Unlock()
	done <- struct{}{}
}

func (b *box) get(k string) int {
	b.mu.RLock()
	defer b.mu.RUnlock()
	return b.val[k]
}

// Idioms: method values in go statements, RWMutex, deferred close/Done, if/switch with receive
// initialisers, receive inside expressions, non-blocking send, select with a send case, Once.
func Idioms() string {
	b := &box{val: map[string]int{}}
	done := make(chan struct{})
	go b.put("x", 2, done)
	go b.put("y", 3, done)
	<-done
	<-done
	a := make(chan int, 1)
	c := make(chan int, 1)
	a <- b.get("x")
	c <- b.get("y")
	sum := <-a + <-c
	res := make(chan string, 4)
	var wg sync.WaitGroup
	var once sync.Once
	for i := 0; i < 2; i++ {
		i := i
		wg.Add(1)
		go func() {
			defer wg.Done()
			once.Do(func() { res <- "once" })
			_ = i
		}()
	}
	wg.Wait()
	full := make(chan int, 1)
	full <- 1
	nb := ""
	select {
	case full <- 2:
		nb = "sent"
	default:
		nb = "full"
	}
	out := make(chan int)
	go func() {
		defer close(out)
		for i := 0; i < 2; i++ {
			select {
			case out <- i:
			}
		}
	}()
	got := ""
	if v, ok := <-out; ok {
		got += fmt.Sprint(v)
	}
	switch v := <-out; v {
	case 1:
		got += "one"
	default:
		got += "other"
	}
	var last int
	for last = range out {
	}
	return fmt.Sprint(sum, <-res, nb, got, last, len(res))
}

// ErrFirst: the gofasta pattern - stages report on one error channel, main selects on it in every
// stage-completion loop.
func ErrFirst(fail bool) string {
	cErr := make(chan error)
	cDone := make(chan bool)
	work := make(chan int, 2)
	go func() {
		for i := 0; i < 3; i++ {
			if fail && i == 1 {
				cErr <- fmt.Errorf("bad record %d", i)
				return
			}
			work <- i
		}
		cDone <- true
	}()
	go func() {
		for range work {
		}
	}()
	for n := 1; n > 0; {
		select {
		case err := <-cErr:
			return "error: " + err.Error()
		case <-cDone:
			close(work)
			n--
		}
	}
	return "ok"
}

// ---- shared memory: package-level variables written after init, and sync/atomic ----

var lazyTable []int // lazily built, unsynchronised (a memoisation race)
var lazyCount int

func buildLazy() []int {
	if lazyTable != nil {
		return lazyTable
	}
	lazyTable = make([]int, 2)
	lazyTable[0] = 1
	lazyTable[1] = 2
	return lazyTable
}

// LazyGlobal: two goroutines use an unsynchronised lazily built table; a reader can see it half built.
// Also checks that shared variables are reset between executions (otherwise only the first sees it cold).
func LazyGlobal() string {
	res := make(chan int, 2)
	for i := 0; i < 2; i++ {
		go func() {
			t := buildLazy()
			res <- t[0] + t[1]
		}()
	}
	a, b := <-res, <-res
	if a > b {
		a, b = b, a
	}
	return fmt.Sprint(a, b)
}

// GlobalCounter: unsynchronised read-modify-write of a package-level counter (lost update).
func GlobalCounter() string {
	var wg sync.WaitGroup
	for i := 0; i < 2; i++ {
		wg.Add(1)
		go func() {
			defer wg.Done()
			v := lazyCount
			lazyCount = v + 1
		}()
	}
	wg.Wait()
	return fmt.Sprint(lazyCount)
}

var casFlag int32
var casTable [2]int

// CASBeforeBuild: the winner of a compare-and-swap builds the table after flipping the flag; losers
// return the table at once and can see it empty or half built.
func CASBeforeBuild() string {
	res := make(chan int, 2)
	for i := 0; i < 2; i++ {
		go func() {
			if atomic.CompareAndSwapInt32(&casFlag, 0, 1) {
				casTable[0] = 1
				casTable[1] = 2
			}
			res <- casTable[0] + casTable[1]
		}()
	}
	a, b := <-res, <-res
	if a > b {
		a, b = b, a
	}
	return fmt.Sprint(a, b)
}

// AtomicCounter: atomic increments never lose an update; a load may see 0, 1 or 2 of them.
func AtomicCounter() string {
	var n atomic.Int64
	var wg sync.WaitGroup
	for i := 0; i < 2; i++ {
		wg.Add(1)
		go func() {
			defer wg.Done()
			n.Add(1)
		}()
	}
	seen := n.Load()
	wg.Wait()
	return fmt.Sprint(seen, n.Load())
}


var bufPool = sync.Pool{New: func() any { return new([]byte) }}

// PoolEarlyPut: a producer hands a pooled buffer to a consumer and puts it back into the pool at once; the
// next Get (LIFO inside a controlled run) returns the same buffer, and writing to it can change what the
// consumer has not read yet.
func PoolEarlyPut() string {
	ch := make(chan *[]byte, 2)
	go func() {
		for _, w := range []string{"aa", "bb"} {
			b := bufPool.Get().(*[]byte)
			*b = append((*b)[:0], w...)
			ch <- b
			bufPool.Put(b) // too early: the consumer may not have read it
		}
		close(ch)
	}()
	out := ""
	for b := range ch {
		out += string(*b)
	}
	return out
}

// OnceLazy: sync.Once-guarded lazy initialisation is safe: every caller sees the built table.
var onceTable []int
var onceGuard sync.Once

func OnceLazy() string {
	res := make(chan int, 2)
	for i := 0; i < 2; i++ {
		go func() {
			onceGuard.Do(func() {
				onceTable = make([]int, 2)
				onceTable[0] = 1
				onceTable[1] = 2
			})
			res <- onceTable[0] + onceTable[1]
		}()
	}
	return fmt.Sprint(<-res + <-res)
}


// LateWrite: a goroutine signals "done" and writes afterwards; what main sees when it returns depends on
// which side of the rendezvous runs on first (each continuation is scheduled on its own).
func LateWrite() string {
	done := make(chan bool)
	out := ""
	go func() {
		out += "early;"
		done <- true
		out += "late;"
	}()
	<-done
	return out
}
