// vinstr: source-to-source instrumenter (prototype).
// Rewrites every goroutine / channel / select / WaitGroup / map-range /
// runtime.NumCPU use in the non-test files of the given packages so that each
// becomes a call into the scheduler shim package (zzvs). Output: instrumented
// copies + a go build -overlay JSON.
package main

import (
	"bytes"
	"encoding/json"
	"fmt"
	"go/ast"
	"go/format"
	"go/token"
	"go/types"
	"os"
	"path/filepath"
	"sort"
	"strconv"

	"golang.org/x/tools/go/ast/astutil"
	"golang.org/x/tools/go/packages"
)

const modPath = "github.com/virus-evolution/gofasta"
const shimPath = modPath + "/pkg/zzvs"
const syncShim = modPath + "/pkg/zzvs/vsync"

type rewriter struct {
	fset    *token.FileSet
	info    *types.Info
	file    *ast.File
	n       int
	changed bool
	skip    map[ast.Node]bool // select comm statements handled at SelectStmt level
	lblPre  map[ast.Node][]ast.Stmt // pre-statements hoisted out of a labelled statement
	recv2   map[ast.Node]bool // <-ch used in a 2-value context
	sites   int
	shared  map[types.Object]bool // package-level variables written after initialisation (any package)
	pkg     *types.Package
}

func (r *rewriter) tmp(prefix string) *ast.Ident {
	r.n++
	return ast.NewIdent(fmt.Sprintf("zz%s%d", prefix, r.n))
}

func sel(name string) ast.Expr {
	return &ast.SelectorExpr{X: ast.NewIdent("zzvs"), Sel: ast.NewIdent(name)}
}
func call(name string, args ...ast.Expr) *ast.CallExpr {
	return &ast.CallExpr{Fun: sel(name), Args: args}
}
func define(lhs ast.Expr, rhs ast.Expr) ast.Stmt {
	return &ast.AssignStmt{Lhs: []ast.Expr{lhs}, Tok: token.DEFINE, Rhs: []ast.Expr{rhs}}
}
func (r *rewriter) site(n ast.Node) ast.Expr {
	p := r.fset.Position(n.Pos())
	r.sites++
	return &ast.BasicLit{Kind: token.STRING, Value: strconv.Quote(fmt.Sprintf("%s:%d", filepath.Base(p.Filename), p.Line))}
}

func (r *rewriter) isChan(e ast.Expr) bool {
	t := r.info.TypeOf(e)
	if t == nil {
		return false
	}
	_, ok := t.Underlying().(*types.Chan)
	return ok
}
func (r *rewriter) isMap(e ast.Expr) bool {
	t := r.info.TypeOf(e)
	if t == nil {
		return false
	}
	_, ok := t.Underlying().(*types.Map)
	return ok
}
func (r *rewriter) isPkg(id *ast.Ident, path string) bool {
	if o, ok := r.info.Uses[id].(*types.PkgName); ok {
		return o.Imported().Path() == path
	}
	return false
}
func (r *rewriter) isBuiltin(id *ast.Ident, name string) bool {
	if id.Name != name {
		return false
	}
	_, ok := r.info.Uses[id].(*types.Builtin)
	return ok
}
func (r *rewriter) isConstOrNil(e ast.Expr) bool {
	tv, ok := r.info.Types[e]
	if !ok {
		return false
	}
	return tv.Value != nil || tv.IsNil()
}


// ---- shared memory: package-level variables written after init, and sync/atomic operations ----
//
// A package-level variable that some function other than init assigns, increments, takes the address
// of, or hands to delete/copy/clear/append is "shared". Every statement that mentions a shared
// variable, and every statement that performs a sync/atomic operation, becomes a scheduling point
// (zzvs.Shared before it; atomic operations also after it), so interleavings between such statements
// are explored like interleavings between channel operations. Shared variables are re-initialised
// before each controlled run (generated zzvsReset functions).

func rootVar(info *types.Info, e ast.Expr) types.Object {
	for {
		switch x := e.(type) {
		case *ast.ParenExpr:
			e = x.X
		case *ast.IndexExpr:
			e = x.X
		case *ast.SliceExpr:
			e = x.X
		case *ast.StarExpr:
			e = x.X
		case *ast.SelectorExpr:
			if id, ok := x.X.(*ast.Ident); ok {
				if _, isPkg := info.Uses[id].(*types.PkgName); isPkg {
					return pkgLevelVar(info.Uses[x.Sel])
				}
			}
			e = x.X
		case *ast.Ident:
			return pkgLevelVar(info.Uses[x])
		default:
			return nil
		}
	}
}

func pkgLevelVar(o types.Object) types.Object {
	v, ok := o.(*types.Var)
	if !ok || v.IsField() || v.Pkg() == nil || v.Parent() != v.Pkg().Scope() {
		return nil
	}
	if len(v.Pkg().Path()) < len(modPath) || v.Pkg().Path()[:len(modPath)] != modPath {
		return nil
	}
	return v
}

// collectShared adds to set every package-level variable of the module that the file mutates outside init.
func collectShared(info *types.Info, f *ast.File, set map[types.Object]bool) {
	for _, d := range f.Decls {
		fd, ok := d.(*ast.FuncDecl)
		if !ok || fd.Body == nil || (fd.Recv == nil && fd.Name.Name == "init") {
			continue
		}
		ast.Inspect(fd.Body, func(n ast.Node) bool {
			mark := func(e ast.Expr) {
				if o := rootVar(info, e); o != nil {
					set[o] = true
				}
			}
			switch x := n.(type) {
			case *ast.AssignStmt:
				for _, l := range x.Lhs {
					mark(l)
				}
			case *ast.IncDecStmt:
				mark(x.X)
			case *ast.UnaryExpr:
				if x.Op == token.AND {
					mark(x.X)
				}
			case *ast.RangeStmt:
				if x.Tok == token.ASSIGN {
					if x.Key != nil {
						mark(x.Key)
					}
					if x.Value != nil {
						mark(x.Value)
					}
				}
			case *ast.CallExpr:
				if id, ok := x.Fun.(*ast.Ident); ok && len(x.Args) > 0 {
					if _, b := info.Uses[id].(*types.Builtin); b && (id.Name == "delete" || id.Name == "copy" || id.Name == "clear") {
						mark(x.Args[0])
					}
				}
				// method with pointer receiver called on an addressable global: implicit &global
				if se, ok := x.Fun.(*ast.SelectorExpr); ok {
					if s := info.Selections[se]; s != nil && s.Kind() == types.MethodVal {
						if fn, ok := s.Obj().(*types.Func); ok {
							if sig, ok := fn.Type().(*types.Signature); ok && sig.Recv() != nil {
								if _, ptr := sig.Recv().Type().(*types.Pointer); ptr {
									if _, already := info.TypeOf(se.X).(*types.Pointer); !already {
										mark(se.X)
									}
								}
							}
						}
					}
				}
			}
			return true
		})
	}
}

func (r *rewriter) isAtomicCall(n *ast.CallExpr) bool {
	se, ok := n.Fun.(*ast.SelectorExpr)
	if !ok {
		return false
	}
	if id, ok := se.X.(*ast.Ident); ok && r.isPkg(id, "sync/atomic") {
		return true
	}
	if s := r.info.Selections[se]; s != nil && s.Obj().Pkg() != nil && s.Obj().Pkg().Path() == "sync/atomic" {
		return true
	}
	return false
}

// touchesShared reports whether the given nodes (not descending into function literals or nested
// statement bodies) mention a shared variable or perform an atomic operation.
func (r *rewriter) touchesShared(nodes ...ast.Node) bool {
	found := false
	for _, n := range nodes {
		if n == nil || found {
			continue
		}
		ast.Inspect(n, func(m ast.Node) bool {
			if found {
				return false
			}
			switch x := m.(type) {
			case *ast.FuncLit:
				return false
			case *ast.Ident:
				if o := pkgLevelVar(r.info.Uses[x]); o != nil && r.shared[o] {
					found = true
				}
			case *ast.CallExpr:
				if r.isAtomicCall(x) {
					found = true
				}
				if se, ok := x.Fun.(*ast.SelectorExpr); ok && r.isZZ(se, "After") {
					found = true
				}
			}
			return true
		})
	}
	return found
}

func (r *rewriter) isZZ(se *ast.SelectorExpr, name string) bool {
	id, ok := se.X.(*ast.Ident)
	return ok && id.Name == "zzvs" && se.Sel.Name == name
}

// header returns the parts of a statement that execute as part of the statement itself (for compound
// statements: everything but the nested bodies, whose statements are instrumented on their own).
func header(s ast.Stmt) []ast.Node {
	nn := func(xs ...ast.Node) []ast.Node {
		var out []ast.Node
		for _, x := range xs {
			if x != nil && !isNilNode(x) {
				out = append(out, x)
			}
		}
		return out
	}
	switch x := s.(type) {
	case *ast.IfStmt:
		return nn(x.Init, x.Cond)
	case *ast.ForStmt:
		return nn(x.Init, x.Cond)
	case *ast.RangeStmt:
		return nn(x.X)
	case *ast.SwitchStmt:
		return nn(x.Init, x.Tag)
	case *ast.TypeSwitchStmt:
		return nn(x.Init, x.Assign)
	case *ast.BlockStmt, *ast.SelectStmt:
		return nil
	case *ast.LabeledStmt:
		return header(x.Stmt)
	case *ast.CaseClause, *ast.CommClause:
		return nil
	}
	return []ast.Node{s}
}

func isNilNode(n ast.Node) bool {
	switch x := n.(type) {
	case ast.Stmt:
		return x == nil
	case ast.Expr:
		return x == nil
	}
	return false
}

// sharedStmt is called (post-order) for every statement: adds the scheduling points.
func (r *rewriter) sharedStmt(c *astutil.Cursor, s ast.Stmt) {
	if fs, ok := s.(*ast.ForStmt); ok && (r.touchesShared(fs.Cond) || r.touchesShared(fs.Post)) {
		// a point before every evaluation of the condition: for init; ; post { Shared(); if !(cond) { break }; body }
		pre := []ast.Stmt{&ast.ExprStmt{X: call("Shared", r.site(fs))}}
		if fs.Cond != nil {
			pre = append(pre, &ast.IfStmt{Cond: &ast.UnaryExpr{Op: token.NOT, X: &ast.ParenExpr{X: fs.Cond}}, Body: &ast.BlockStmt{List: []ast.Stmt{&ast.BranchStmt{Tok: token.BREAK}}}})
			fs.Cond = nil
		}
		fs.Body.List = append(pre, fs.Body.List...)
		r.changed = true
	}
	if c.Index() < 0 {
		return
	}
	if _, isClause := s.(*ast.CaseClause); isClause {
		return
	}
	if _, isClause := s.(*ast.CommClause); isClause {
		return
	}
	if !r.touchesShared(header(s)...) {
		return
	}
	c.InsertBefore(&ast.ExprStmt{X: call("Shared", r.site(s))})
	r.changed = true
}

func (r *rewriter) pre(c *astutil.Cursor) bool {
	switch n := c.Node().(type) {
	case *ast.SelectStmt:
		for _, cl := range n.Body.List {
			cc := cl.(*ast.CommClause)
			if cc.Comm != nil {
				r.skip[cc.Comm] = true
			}
		}
	case *ast.AssignStmt:
		if len(n.Lhs) == 2 && len(n.Rhs) == 1 {
			if u, ok := n.Rhs[0].(*ast.UnaryExpr); ok && u.Op == token.ARROW {
				r.recv2[u] = true
			}
		}
	case *ast.ValueSpec:
		if len(n.Names) == 2 && len(n.Values) == 1 {
			if u, ok := n.Values[0].(*ast.UnaryExpr); ok && u.Op == token.ARROW {
				r.recv2[u] = true
			}
		}
	}
	return true
}

// inSkippedComm reports whether node n is (part of) a select comm statement
func (r *rewriter) commOf(c *astutil.Cursor) bool {
	if r.skip[c.Node()] {
		return true
	}
	if p := c.Parent(); p != nil && r.skip[p] {
		return true
	}
	return false
}

func (r *rewriter) post(c *astutil.Cursor) bool {
	if st, ok := c.Node().(ast.Stmt); ok {
		defer r.sharedStmt(c, st)
	}
	switch n := c.Node().(type) {
	case *ast.SendStmt:
		if r.skip[n] {
			return true
		}
		ch := r.tmp("c")
		blk := &ast.BlockStmt{List: []ast.Stmt{
			define(ch, n.Chan),
			&ast.ExprStmt{X: call("PreSend", ch, r.site(n))},
			&ast.SendStmt{Chan: ch, Value: n.Value},
			&ast.ExprStmt{X: call("Post")},
		}}
		c.Replace(blk)
		r.changed = true
	case *ast.UnaryExpr:
		if n.Op != token.ARROW {
			return true
		}
		// part of a select comm? (ExprStmt{<-ch} or AssignStmt{.. <-ch})
		if p := c.Parent(); p != nil {
			if r.skip[p] {
				return true
			}
		}
		name := "Recv"
		if r.recv2[n] {
			name = "Recv2"
		}
		c.Replace(call(name, n.X, r.site(n)))
		r.changed = true
	case *ast.CallExpr:
		if id, ok := n.Fun.(*ast.Ident); ok && r.isBuiltin(id, "close") && len(n.Args) == 1 {
			c.Replace(call("Close", n.Args[0], r.site(n)))
			r.changed = true
		} else if r.isAtomicCall(n) {
			// a point after the operation as well (the one before it is added at statement level)
			if tv, ok := r.info.Types[n]; ok && tv.IsValue() {
				if _, isStmt := c.Parent().(*ast.ExprStmt); !isStmt {
					c.Replace(call("After", n, r.site(n)))
					r.changed = true
				}
			}
		}
	case *ast.ExprStmt:
		if ce, ok := n.X.(*ast.CallExpr); ok && r.isAtomicCall(ce) && c.Index() >= 0 {
			c.InsertAfter(&ast.ExprStmt{X: call("Shared", r.site(n))})
			r.changed = true
		}
	case *ast.SelectorExpr:
		if id, ok := n.X.(*ast.Ident); ok && r.isPkg(id, "runtime") {
			if n.Sel.Name == "NumCPU" || n.Sel.Name == "GOMAXPROCS" {
				c.Replace(sel(n.Sel.Name))
				r.changed = true
			}
		}
	case *ast.GoStmt:
		r.rewriteGo(c, n)
	case *ast.RangeStmt:
		if r.isChan(n.X) {
			r.rewriteRangeChan(c, n)
		} else if r.isMap(n.X) {
			r.rewriteRangeMap(c, n)
		}
	case *ast.SelectStmt:
		r.rewriteSelect(c, n)
	case *ast.LabeledStmt:
		if pre := r.lblPre[n]; len(pre) > 0 {
			stmts := append(append([]ast.Stmt{}, pre...), n)
			delete(r.lblPre, n)
			if c.Index() >= 0 {
				for _, s := range stmts[:len(stmts)-1] {
					c.InsertBefore(s)
				}
			} else {
				c.Replace(&ast.BlockStmt{List: stmts})
			}
		}
	case *ast.ImportSpec:
		if n.Path.Value == `"sync"` {
			if n.Name == nil {
				n.Name = ast.NewIdent("sync")
			}
			n.Path.Value = strconv.Quote(syncShim)
			r.changed = true
		}
	}
	return true
}

func (r *rewriter) replaceStmt(c *astutil.Cursor, stmts []ast.Stmt) {
	if ls, labelled := c.Parent().(*ast.LabeledStmt); labelled {
		// keep the label on the final statement; the pre-statements are emitted in front of the
		// labelled statement when the walk reaches it (post-order)
		r.lblPre[ls] = append(r.lblPre[ls], stmts[:len(stmts)-1]...)
		c.Replace(stmts[len(stmts)-1])
		return
	}
	// if the cursor is in a list, splice; otherwise wrap in a block
	if c.Index() >= 0 {
		for _, s := range stmts[:len(stmts)-1] {
			c.InsertBefore(s)
		}
		c.Replace(stmts[len(stmts)-1])
	} else {
		c.Replace(&ast.BlockStmt{List: stmts})
	}
}

func (r *rewriter) rewriteGo(c *astutil.Cursor, n *ast.GoStmt) {
	var pre []ast.Stmt
	callx := n.Call
	newArgs := make([]ast.Expr, len(callx.Args))
	for i, a := range callx.Args {
		if r.isConstOrNil(a) {
			newArgs[i] = a
			continue
		}
		t := r.tmp("a")
		pre = append(pre, define(t, a))
		newArgs[i] = t
	}
	fun := callx.Fun
	if _, isLit := fun.(*ast.FuncLit); !isLit {
		switch fun.(type) {
		case *ast.Ident, *ast.SelectorExpr:
		default:
			t := r.tmp("f")
			pre = append(pre, define(t, fun))
			fun = t
		}
	}
	inner := &ast.CallExpr{Fun: fun, Args: newArgs, Ellipsis: callx.Ellipsis}
	lit := &ast.FuncLit{Type: &ast.FuncType{Params: &ast.FieldList{}}, Body: &ast.BlockStmt{List: []ast.Stmt{&ast.ExprStmt{X: inner}}}}
	stmts := append(pre, &ast.ExprStmt{X: call("Go", lit, r.site(n))})
	// need a block so temps don't leak (and may be redeclared in loops) – always wrap
	c.Replace(&ast.BlockStmt{List: stmts})
	r.changed = true
}

func (r *rewriter) rewriteRangeChan(c *astutil.Cursor, n *ast.RangeStmt) {
	ch := r.tmp("c")
	ok := r.tmp("ok")
	var recv ast.Stmt
	rc := call("Recv2", ch, r.site(n))
	if n.Key == nil {
		recv = &ast.AssignStmt{Lhs: []ast.Expr{ast.NewIdent("_"), ok}, Tok: token.DEFINE, Rhs: []ast.Expr{rc}}
	} else if n.Tok == token.DEFINE {
		recv = &ast.AssignStmt{Lhs: []ast.Expr{n.Key, ok}, Tok: token.DEFINE, Rhs: []ast.Expr{rc}}
	} else {
		// for x = range ch
		recv = &ast.BlockStmt{} // placeholder, handled below
	}
	body := []ast.Stmt{}
	if n.Key != nil && n.Tok == token.ASSIGN {
		body = append(body, &ast.DeclStmt{Decl: &ast.GenDecl{Tok: token.VAR, Specs: []ast.Spec{&ast.ValueSpec{Names: []*ast.Ident{ok}, Type: ast.NewIdent("bool")}}}})
		body = append(body, &ast.AssignStmt{Lhs: []ast.Expr{n.Key, ok}, Tok: token.ASSIGN, Rhs: []ast.Expr{rc}})
	} else {
		body = append(body, recv)
	}
	body = append(body, &ast.IfStmt{Cond: &ast.UnaryExpr{Op: token.NOT, X: ok}, Body: &ast.BlockStmt{List: []ast.Stmt{&ast.BranchStmt{Tok: token.BREAK}}}})
	if n.Key != nil && n.Tok == token.DEFINE {
		// avoid "declared and not used"
		if id, isId := n.Key.(*ast.Ident); isId && id.Name != "_" {
			body = append(body, &ast.AssignStmt{Lhs: []ast.Expr{ast.NewIdent("_")}, Tok: token.ASSIGN, Rhs: []ast.Expr{ast.NewIdent(id.Name)}})
		}
	}
	body = append(body, n.Body.List...)
	loop := &ast.ForStmt{Body: &ast.BlockStmt{List: body}}
	r.replaceLoop(c, []ast.Stmt{define(ch, n.X)}, loop)
	r.changed = true
}

// replaceLoop replaces a (possibly labelled) loop statement by pre-statements + new loop
func (r *rewriter) replaceLoop(c *astutil.Cursor, pre []ast.Stmt, loop ast.Stmt) {
	r.replaceStmt(c, append(pre, loop))
}

func (r *rewriter) rewriteRangeMap(c *astutil.Cursor, n *ast.RangeStmt) {
	if n.Key == nil && n.Value == nil {
		return // order unobservable except for side effects count; leave
	}
	m := r.tmp("m")
	k := r.tmp("k")
	body := []ast.Stmt{}
	// skip keys deleted during iteration
	present := r.tmp("in")
	var valLhs ast.Expr = ast.NewIdent("_")
	valTok := token.DEFINE
	if n.Value != nil {
		if id, ok := n.Value.(*ast.Ident); !ok || id.Name != "_" {
			valLhs = n.Value
			valTok = n.Tok
		}
	}
	idx := &ast.IndexExpr{X: m, Index: k}
	if valTok == token.DEFINE {
		body = append(body, &ast.AssignStmt{Lhs: []ast.Expr{valLhs, present}, Tok: token.DEFINE, Rhs: []ast.Expr{idx}})
	} else {
		body = append(body, &ast.DeclStmt{Decl: &ast.GenDecl{Tok: token.VAR, Specs: []ast.Spec{&ast.ValueSpec{Names: []*ast.Ident{present}, Type: ast.NewIdent("bool")}}}})
		body = append(body, &ast.AssignStmt{Lhs: []ast.Expr{valLhs, present}, Tok: token.ASSIGN, Rhs: []ast.Expr{idx}})
	}
	body = append(body, &ast.IfStmt{Cond: &ast.UnaryExpr{Op: token.NOT, X: present}, Body: &ast.BlockStmt{List: []ast.Stmt{&ast.BranchStmt{Tok: token.CONTINUE}}}})
	if id, ok := valLhs.(*ast.Ident); ok && id.Name != "_" && valTok == token.DEFINE {
		body = append(body, &ast.AssignStmt{Lhs: []ast.Expr{ast.NewIdent("_")}, Tok: token.ASSIGN, Rhs: []ast.Expr{ast.NewIdent(id.Name)}})
	}
	if n.Key != nil {
		if id, ok := n.Key.(*ast.Ident); !ok || id.Name != "_" {
			body = append(body, &ast.AssignStmt{Lhs: []ast.Expr{n.Key}, Tok: n.Tok, Rhs: []ast.Expr{k}})
			if ok && n.Tok == token.DEFINE {
				body = append(body, &ast.AssignStmt{Lhs: []ast.Expr{ast.NewIdent("_")}, Tok: token.ASSIGN, Rhs: []ast.Expr{ast.NewIdent(id.Name)}})
			}
		}
	}
	body = append(body, n.Body.List...)
	loop := &ast.RangeStmt{Key: ast.NewIdent("_"), Value: k, Tok: token.DEFINE, X: call("MapKeys", m, r.site(n)), Body: &ast.BlockStmt{List: body}}
	r.replaceStmt(c, []ast.Stmt{define(m, n.X), loop})
	r.changed = true
}

func (r *rewriter) rewriteSelect(c *astutil.Cursor, n *ast.SelectStmt) {
	var pre []ast.Stmt
	var cases []ast.Expr
	var clauses []ast.Stmt
	hasDefault := false
	idx := 0
	for _, cl := range n.Body.List {
		cc := cl.(*ast.CommClause)
		if cc.Comm == nil {
			hasDefault = true
			// Select returns -1 for the default clause, which matches no numbered case
			clauses = append(clauses, &ast.CaseClause{List: nil, Body: cc.Body})
			continue
		}
		ch := r.tmp("c")
		var op ast.Stmt
		switch s := cc.Comm.(type) {
		case *ast.SendStmt:
			v := r.tmp("v")
			pre = append(pre, define(ch, s.Chan))
			if r.isConstOrNil(s.Value) {
				op = &ast.SendStmt{Chan: ch, Value: s.Value}
			} else {
				pre = append(pre, define(v, s.Value))
				op = &ast.SendStmt{Chan: ch, Value: v}
			}
			cases = append(cases, call("CaseSend", ch))
		case *ast.ExprStmt:
			u := s.X.(*ast.UnaryExpr)
			pre = append(pre, define(ch, u.X))
			op = &ast.ExprStmt{X: &ast.UnaryExpr{Op: token.ARROW, X: ch}}
			cases = append(cases, call("CaseRecv", ch))
		case *ast.AssignStmt:
			u := s.Rhs[0].(*ast.UnaryExpr)
			pre = append(pre, define(ch, u.X))
			op = &ast.AssignStmt{Lhs: s.Lhs, Tok: s.Tok, Rhs: []ast.Expr{&ast.UnaryExpr{Op: token.ARROW, X: ch}}}
			cases = append(cases, call("CaseRecv", ch))
			// silence "declared and not used" for := vars
			if s.Tok == token.DEFINE {
				body := []ast.Stmt{op}
				for _, l := range s.Lhs {
					if id, ok := l.(*ast.Ident); ok && id.Name != "_" {
						body = append(body, &ast.AssignStmt{Lhs: []ast.Expr{ast.NewIdent("_")}, Tok: token.ASSIGN, Rhs: []ast.Expr{ast.NewIdent(id.Name)}})
					}
				}
				body = append(body, &ast.ExprStmt{X: call("Post")})
				clauses = append(clauses, &ast.CaseClause{List: []ast.Expr{&ast.BasicLit{Kind: token.INT, Value: strconv.Itoa(idx)}}, Body: append(body, cc.Body...)})
				idx++
				continue
			}
		}
		clauses = append(clauses, &ast.CaseClause{List: []ast.Expr{&ast.BasicLit{Kind: token.INT, Value: strconv.Itoa(idx)}}, Body: append([]ast.Stmt{op, &ast.ExprStmt{X: call("Post")}}, cc.Body...)})
		idx++
	}
	hd := "false"
	if hasDefault {
		hd = "true"
	}
	if !hasDefault {
		// keeps the switch a terminating statement exactly when the select was one
		clauses = append(clauses, &ast.CaseClause{List: nil, Body: []ast.Stmt{&ast.ExprStmt{X: &ast.CallExpr{Fun: ast.NewIdent("panic"), Args: []ast.Expr{&ast.BasicLit{Kind: token.STRING, Value: strconv.Quote("zzvs: Select returned an impossible case")}}}}}})
	}
	args := append([]ast.Expr{r.site(n), ast.NewIdent(hd)}, cases...)
	sw := &ast.SwitchStmt{Tag: call("Select", args...), Body: &ast.BlockStmt{List: clauses}}
	r.replaceStmt(c, append(pre, sw))
	r.changed = true
}

// resetDecl builds `func init() { zzvs.RegisterReset(func() { <re-initialise the shared variables declared in f> }) }`.
func resetDecl(info *types.Info, f *ast.File, shared map[types.Object]bool) ast.Decl {
	var body []ast.Stmt
	for _, d := range f.Decls {
		gd, ok := d.(*ast.GenDecl)
		if !ok || gd.Tok != token.VAR {
			continue
		}
		for _, sp := range gd.Specs {
			vs := sp.(*ast.ValueSpec)
			any := false
			for _, nm := range vs.Names {
				if shared[info.Defs[nm]] {
					any = true
				}
			}
			if !any {
				continue
			}
			switch {
			case len(vs.Values) == 0:
				for _, nm := range vs.Names {
					if shared[info.Defs[nm]] {
						body = append(body, &ast.ExprStmt{X: call("Zero", &ast.UnaryExpr{Op: token.AND, X: ast.NewIdent(nm.Name)})})
					}
				}
			case len(vs.Values) == len(vs.Names):
				for i, nm := range vs.Names {
					if shared[info.Defs[nm]] {
						body = append(body, &ast.AssignStmt{Lhs: []ast.Expr{ast.NewIdent(nm.Name)}, Tok: token.ASSIGN, Rhs: []ast.Expr{vs.Values[i]}})
					}
				}
			default:
				var lhs []ast.Expr
				for _, nm := range vs.Names {
					lhs = append(lhs, ast.NewIdent(nm.Name))
				}
				body = append(body, &ast.AssignStmt{Lhs: lhs, Tok: token.ASSIGN, Rhs: vs.Values})
			}
		}
	}
	if len(body) == 0 {
		return nil
	}
	lit := &ast.FuncLit{Type: &ast.FuncType{Params: &ast.FieldList{}}, Body: &ast.BlockStmt{List: body}}
	return &ast.FuncDecl{Name: ast.NewIdent("init"), Type: &ast.FuncType{Params: &ast.FieldList{}},
		Body: &ast.BlockStmt{List: []ast.Stmt{&ast.ExprStmt{X: call("RegisterReset", lit)}}}}
}

func fatal(format string, a ...interface{}) {
	fmt.Fprintf(os.Stderr, "vinstr: "+format+"\n", a...)
	os.Exit(2)
}

// usage: vinstr <repo> <outdir> <shimdir>
// writes <outdir>/pkg/**.go (instrumented copies), <outdir>/overlay.json (instrumented files + the two
// virtual shim packages) and <outdir>/overlay_plain.json (virtual shim packages only).
func main() {
	if len(os.Args) != 4 {
		fatal("usage: vinstr <repo> <outdir> <shimdir>")
	}
	repo, out, shim := os.Args[1], os.Args[2], os.Args[3]
	defer func() {
		if r := recover(); r != nil {
			fatal("cannot instrument: %v", r)
		}
	}()
	shimFiles := map[string]string{
		filepath.Join(repo, "pkg/zzvs/zzvs.go"):        filepath.Join(shim, "zzvs/zzvs.go"),
		filepath.Join(repo, "pkg/zzvs/vsync/vsync.go"): filepath.Join(shim, "zzvs/vsync/vsync.go"),
	}
	cfg := &packages.Config{Mode: packages.NeedName | packages.NeedFiles | packages.NeedSyntax | packages.NeedTypes | packages.NeedTypesInfo | packages.NeedImports | packages.NeedDeps, Dir: repo}
	pkgs, err := packages.Load(cfg, "./pkg/...")
	if err != nil {
		fatal("load: %v", err)
	}
	overlay := map[string]string{}
	totalSites, nfiles := 0, 0
	shared := map[types.Object]bool{}
	for _, p := range pkgs {
		if len(p.Errors) > 0 {
			fatal("type errors in %s: %v", p.PkgPath, p.Errors)
		}
		for _, f := range p.Syntax {
			collectShared(p.TypesInfo, f, shared)
		}
	}
	var sharedNames []string
	for o := range shared {
		sharedNames = append(sharedNames, o.Pkg().Name()+"."+o.Name())
	}
	sort.Strings(sharedNames)
	for _, p := range pkgs {
		for _, f := range p.Syntax {
			fn := p.Fset.Position(f.Pos()).Filename
			r := &rewriter{fset: p.Fset, info: p.TypesInfo, file: f, skip: map[ast.Node]bool{}, lblPre: map[ast.Node][]ast.Stmt{}, recv2: map[ast.Node]bool{}, shared: shared, pkg: p.Types}
			usesRuntime, usesSync := false, false
			for _, im := range f.Imports {
				if im.Path.Value == `"runtime"` {
					usesRuntime = true
				}
				if im.Path.Value == `"sync"` {
					usesSync = true
				}
			}
			astutil.Apply(f, r.pre, r.post)
			if reset := resetDecl(p.TypesInfo, f, shared); reset != nil {
				f.Decls = append(f.Decls, reset)
				r.changed = true
			}
			if !r.changed {
				continue
			}
			totalSites += r.sites
			nfiles++
			astutil.AddNamedImport(p.Fset, f, "zzvs", shimPath)
			f.Comments = nil
			var buf bytes.Buffer
			if err := format.Node(&buf, p.Fset, f); err != nil {
				fatal("format %s: %v", fn, err)
			}
			if usesRuntime {
				buf.WriteString("\nvar _ = runtime.Version\n")
			}
			if usesSync {
				buf.WriteString("\nvar _ sync.Locker\n")
			}
			buf.WriteString("\nvar _ = zzvs.NumCPU\n")
			rel, _ := filepath.Rel(repo, fn)
			dst := filepath.Join(out, rel)
			os.MkdirAll(filepath.Dir(dst), 0755)
			if err := os.WriteFile(dst, buf.Bytes(), 0644); err != nil {
				fatal("%v", err)
			}
			overlay[fn] = dst
		}
	}
	plain := map[string]string{}
	for k, v := range shimFiles {
		overlay[k] = v
		plain[k] = v
	}
	js, _ := json.MarshalIndent(map[string]interface{}{"Replace": overlay}, "", " ")
	if err := os.WriteFile(filepath.Join(out, "overlay.json"), js, 0644); err != nil {
		fatal("%v", err)
	}
	js, _ = json.MarshalIndent(map[string]interface{}{"Replace": plain}, "", " ")
	os.WriteFile(filepath.Join(out, "overlay_plain.json"), js, 0644)
	fmt.Printf("vinstr: instrumented %d files, %d sites, shared package-level variables: %v\n", nfiles, totalSites, sharedNames)
}
