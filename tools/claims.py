not_claimed = {}
claimed["C12"] = dict(engine="engine-S", category="model_checking",
  technique="stateless model checking of the real pipelines under a controlled scheduler (all interleavings and map orders; unbounded with happens-before caching or preemption/map-deviation bounded)",
  text="every execution of each command's reader/worker/writer pipeline on 2-3 record inputs with 1-3 workers is enumerated (all interleavings and all map iteration orders, unbounded where the space is small, else <=2 preemptions and <=2 deviating maps) and must produce the single observation of the canonical schedule; the result is then bound to the real binary for --threads 1..16 x GOMAXPROCS 1,4,16",
  note="trusted: the scheduler shim's model of channels/WaitGroup/select; goroutine-local determinism between synchronisation points (the data-race clause of C12 rests on a complementary free-running -race pass, which is not model checking); biogo/hts and the standard library uninstrumented",
  design_ref="DESIGN.md 2.2, 3 (C12)")

claimed["C17"] = dict(engine="engine-I", category="model_checking",
  technique="complete enumeration of the finite domain against an independent reference model",
  text="the domain is finite and enumerated outright: all 3375 IUPAC codons through the codon dictionary and strict/non-strict Translate, all 4096 unambiguous codon pairs, all 32 accepted characters through text and encoded complement, encode/decode (both gap modes) and the set semantics of the bit encoding, all 33824 strings of length <=3 through the three reverse-complement forms; the 3375 codons additionally through the real `gofasta variants` binary",
  note="trusted: the reference genetic code (NCBI table 1 as the 64-letter TCAG string) and IUPAC base-set definitions in harness/ref_iupac.go",
  design_ref="DESIGN.md 3 (C17)")
claimed["C03"] = dict(engine="engine-I", category="model_checking",
  technique="bounded-exhaustive input enumeration on the real entry point vs. set-disjointness reference model",
  text="every (reference symbol pair, query symbol pair) of the 17-symbol alphabet in a width-2 alignment, both gap modes, four letter-case layouts; single differences at every position of widths 1..12 and 99..101; every sequence of 1..4 records from a menu; (thorough) all width-3 pairs over ACRN-?; a 1-in-7 slice of the table replayed through the real binary",
  note="trusted: IUPAC set model; small-scope argument: getSNPs has no width- or position-dependent branch other than the loop itself; schedule independence delegated to C12",
  design_ref="DESIGN.md 3 (C03)")
claimed["C01"] = dict(engine="engine-I", category="model_checking",
  technique="bounded-exhaustive input enumeration on the real entry point vs. reference CIGAR-projection model",
  text="every valid CIGAR over MIDNSHP=X with <=3 (thorough 4) operators of length 1-2 at every POS on a 6-base reference, pad on/off; every ordered pair (thorough: triple) of short records of one query with agreeing and conflicting bases; every stream of 2-4 (5) records over two names and six flag classes; every window/pad/wrap/thread combination on representative files; a slice replayed through the real binary. Each result row is compared with an independent projection/merge/flank model",
  note="trusted: the projection model in harness/ref_sam.go (N = no coverage); domain restrictions listed in the evidence assumptions; biogo/hts SAM parser; small-scope argument for lengths beyond the bound",
  design_ref="DESIGN.md 3 (C01)")
claimed["C02"] = dict(engine="engine-I", category="model_checking",
  technique="bounded-exhaustive input and operation-history enumeration on the real entry point vs. reference pairwise model + differential against toMultiAlign",
  text="every valid single-record CIGAR (<=3/4 operators) at every POS; every master alignment over M/I/D (<=4/5 operators) cut into 2 (3) records at every cut point (adjacent, separated, overlapping), hard- and soft-clipped, both file orders; every window x omit-reference x skip-insertions x directory/stdout x wrap x threads on representative files; every ordered pair of option settings run into one output directory; each row compared with an independent pairwise model and, oracle-free, with the real --skip-insertions and toMultiAlign --pad outputs",
  note="trusted: pairwise model in harness/ref_sam.go; 'non-conflicting' = disjoint or match-only overlaps; biogo/hts parser; small-scope argument beyond the bounds",
  design_ref="DESIGN.md 3 (C02)")
claimed["C05"] = dict(engine="engine-I", category="model_checking",
  technique="bounded-exhaustive enumeration of alignment column patterns on the real entry points vs. reference-coordinate indel model + metamorphic both-gap relation",
  text="every alignment of <=7 (thorough 9) columns over the five column kinds (match, mismatch, insertion, deletion, gap/gap) through `variants` and, without gap/gap, through `sam variants`; ins:/del: records compared with a model in degapped reference coordinates; and, oracle-free, the whole mutation list must not change when gap/gap columns are removed; all width-5 patterns replayed through the real binary",
  note="trusted: indel model in harness/c05.go; small-scope argument: the scan keeps only run-open flags and counters, all of whose transitions occur within 7 columns",
  design_ref="DESIGN.md 3 (C05)")
claimed["C04"] = dict(engine="engine-I", category="model_checking",
  technique="bounded-exhaustive input enumeration on the real entry point vs. set-disjointness model and independent genetic code",
  text="codon level: every (reference codon in 64) x (query codon in 15^3, thorough 17^3) x strand x annotation format; layout level: 11 annotation layouts (forward/reverse/join/complement(join)/join(complement)/overlapping/unnamed GFF CDS ...) x every single and double substitution over ACGTRN- on an 18-base genome x every 1-2-base indel with every single substitution x --append-snps on/off; every mentioned position and every aa record is judged for soundness and completeness; all single substitutions replayed through the real binary",
  note="trusted: varModel in harness/ref_variants.go (NCBI table 1, IUPAC sets); the annotation renderers in harness/gen_anno.go; translation of codons containing '-'/'?' treated as undefined",
  design_ref="DESIGN.md 3 (C04)")
claimed["C14"] = dict(engine="engine-I", category="model_checking",
  technique="bounded-exhaustive differential between two front-ends of the real code (GenBank vs GFF3) over enumerated gene layouts",
  text="every gene layout within the bounds (coding length 6/9, codon_start 1-3, offsets 1-3, both strands, unsplit or split at every base with an intron of -2..3 bases incl. slippage-style overlaps, both GenBank spellings of reverse joins, a second gene downstream, ORF1a/ORF1ab-style pairs, nested in-frame pairs; GFF rows grouped or coordinate-sorted) rendered in both formats and run through `variants` and `sam variants` on every single substitution, deletions and an insertion; per-sequence record multisets must be equal; a slice is bound to the real binary",
  note="trusted: the two renderers in harness/gen_anno.go express the same gene (GFF3 phases per specification); genomes are solved so each gene is sense codons + stop; both formats rejecting a layout is not a difference",
  design_ref="DESIGN.md 3 (C14)")
claimed["C06"] = dict(engine="engine-I", category="model_checking",
  technique="bounded-exhaustive input enumeration on the real entry points vs. sort-based reference model",
  text="every target file of 1..4 (thorough 5) records over a 9-sequence menu realising every tie pattern, two queries in both orders, x 3 measures x {plain, -n 1..3, -d at 3-4 thresholds, both, --table} x threads x wrapped/unwrapped targets, plus 13-30 tied candidates; the returned neighbours, their order, the printed distances and the SNP list are compared with (distance asc, completeness desc, file order asc) computed from the reference distance definitions",
  note="trusted: ref_dist.go (distance + completeness definitions); undefined-distance targets judged only as 'never before/instead of a defined one'",
  design_ref="DESIGN.md 3 (C06)")
claimed["C07"] = dict(engine="engine-I", category="model_checking",
  technique="exhaustive per-column table in context on the real entry point vs. reference distance definitions",
  text="for each measure every ordered pair of column pairs over the 17-symbol alphabet (83 521 sequence pairs) on a backbone containing all bases, a transition and a transversion, in upper/lower/mixed case, read back from `closest -n 289 --table`; all one- and two-column pairs without backbone for raw/snp; numeric comparison (|delta|<=1.5e-9) with the definitions (tn93: Tamura-Nei eq. 7, target frequencies), only where the definition is defined",
  note="trusted: ref_dist.go; float64 evaluation of eq. 7 (the tolerance is 6 orders of magnitude above rounding error)",
  design_ref="DESIGN.md 3 (C07)")
claimed["C10"] = dict(engine="engine-I", category="model_checking",
  technique="bounded-exhaustive input enumeration on the real entry point vs. direct transcription of the statement",
  text="every sequence over {A,C,R,N,-} up to length 6 (thorough 8) against three references (incl. one with R, N and '-'), 2000 rows per call, plus all length-3 sequences over 23 symbol spellings; each row compared with the expected SNP list, maximal ambiguity ranges and both counts; lengths 1-4 replayed through the real binary",
  note="trusted: c10Expect in harness/c10.go; small-scope argument: the scan's state is one open-run flag and two indices",
  design_ref="DESIGN.md 3 (C10)")
claimed["C13"] = dict(engine="engine-I", category="model_checking",
  technique="bounded-exhaustive differential between the --aggregate and per-sequence modes of the real code",
  text="for snps, variants (GenBank/GFF3, reference record at first/middle/last position) and sam variants: every alignment of 1..4 sequences from a 6-row menu x --append-snps x every threshold in {0, 1, each occurring frequency as the same float64 quotient, its two neighbouring floats, midpoints}, plus n=1..60 sequences with k=1..n carriers at thresholds k/n and neighbours; the aggregate output must equal the counted per-sequence output",
  note="trusted: the per-sequence mode (judged against models by C03-C05); order among equal positions is C12's subject",
  design_ref="DESIGN.md 3 (C13)")
claimed["C15"] = dict(engine="engine-I", category="model_checking",
  technique="bounded-exhaustive metamorphic relations between runs of the real code (in-process under the controlled scheduler; legacy flags and stdin through the real binary)",
  text="every window (each bound alone too), pad on/off and every wrap width on 12 representative SAM files for toMultiAlign and toPairAlign; every window on 8 annotation layouts and on a SAM file for variants / sam variants; legacy --trim flags vs --start/--end for every window and refusal of mixing; pipe vs file input for every layout; each relation compares the option run with the transformed unrestricted run",
  note="trusted: the transformations (column slice, reference-column cut, position filter with p = first base of the codon) in harness/c15.go; join-straddling codons not judged",
  design_ref="DESIGN.md 3 (C15)")
claimed["C11"] = dict(engine="engine-I", category="model_checking",
  technique="bounded-exhaustive differential between `sam variants` and `variants` on the FASTA forms written by the real converters",
  text="every valid single-record CIGAR (<=3 operators) at every POS on a 9-base reference and every 2-record cut of every M/I/D master alignment (<=4 operators), under a rotating choice of 64 option sets (4 annotations x --append-snps x 4 windows x reference from file/annotation; all 64 on a subset); the sam variants row must equal the variants row on the toPairAlign pair, on [reference, toMultiAlign --pad row] and (where flanks cannot interfere) on [reference, plain toMultiAlign row]",
  note="trusted: nothing but the real code on both sides; domain restrictions for the plain-row relation listed in the evidence assumptions",
  design_ref="DESIGN.md 3 (C11)")
claimed["C16"] = dict(engine="engine-I", category="model_checking",
  technique="bounded-exhaustive enumeration of byte streams on the five real readers (channel readers driven under the controlled scheduler) vs. a reference parser",
  text="every byte string of length <=5 (thorough 6; 7 for the synchronous reader) over {> A c N - x SP LF CR}; every line-breaking x case x line-ending x final-newline layout of 6 (12) small alignments with a blank line at every boundary; every truncation / single-byte deletion, replacement, insertion / dropped or doubled line of those alignments; each reader must return the reference parser's records on valid streams, reject invalid ones, and never panic or deadlock (exact outcomes, no time-outs)",
  note="trusted: refParse in harness/c16.go (tokenisation = bufio.ScanLines); streams with blank lines / nameless headers / no sequence judged for totality only; 'all byte streams' is covered to the stated length over a 9-byte alphabet, not by fuzzing",
  design_ref="DESIGN.md 3 (C16)")
claimed["C19"] = dict(engine="engine-S", category="fault_enumeration",
  technique="exhaustive write-fault enumeration (every k-th Write, one-shot and persistent) under the controlled scheduler with bounded preemptions, plus byte-granular RLIMIT_FSIZE faults on the real binary",
  text="for every entry point with an io.Writer, the failure of the k-th Write for every k up to the number of writes of the fault-free run, in both fault modes, under every schedule with <=1 (thorough <=2) preemptions: the call must return a non-nil error (never nil, hang or panic); and the real binary with RLIMIT_FSIZE = every n below the output size, for every command including sam toPairAlign to stdout and to a directory, must exit non-zero",
  note="trusted: the scheduler shim; fault model = Write returns (0, err); EFBIG delivery by the kernel at the write that crosses the limit",
  design_ref="DESIGN.md 2.4, 3 (C19)")
claimed["C18"] = dict(engine="engine-S", category="model_checking",
  technique="stateless model checking (all interleavings, happens-before pruned) of every command's error path on enumerated corrupted inputs, plus exit status of the real binary",
  text="~200 corrupted inputs (each listed corruption at the first/middle/last record of each input file of each command) are each explored under ALL interleavings of the reader/worker/writer/error-channel pipeline with 2 (thorough also 3) workers: every execution must end in a returned error (or a panic, i.e. exit 2), never in returned(nil) or a deadlock (an exact outcome of the scheduler, not a time-out); every item and the command-line-only ones (unknown annotation suffix, window 0, missing files) then go through the real binary, whose exit status must be non-zero within 30 s",
  note="trusted: scheduler shim; panics count as refusal here (C16 judges panics on FASTA input); valid-but-empty inputs (SAM header without alignments, target CSV with header only) are not corruptions",
  design_ref="DESIGN.md 3 (C18)")
claimed["C08"] = dict(engine="engine-I", category="model_checking",
  technique="layered bounded-exhaustive input/option enumeration on the real entry point vs. a transcription of the statement",
  text="classification of all 65 536 (query,target) pairs over {A,C,G,N}^4 under pair/target thresholds and --ignore; the fill/balance arithmetic over every supply vector in {0..3}^4 x every requested size vector in {0..2}^4 (thorough {0..3}^4) and --size-total 1..8 x --no-fill; ranking of every file of <=4 candidates (distance x ambiguity, every file order) in each bin under size and distance limits and --dist-push 1,2; 13-30 tied candidates; list and --table forms",
  note="trusted: ref_updown.go; round-robin fill order same,up,down,side and floor(total/4) split taken from the documented behaviour; order inside `same` under --dist-push not judged",
  design_ref="DESIGN.md 3 (C08)")
claimed["C09"] = dict(engine="engine-I", category="model_checking",
  technique="bounded-exhaustive relational check between input formats on the real code + stateless model checking of the per-query result hand-off",
  text="every query set (1-2 of 5, all 3-sets of 3) x every target file (1-3 of 7) x 8 option sets x list/table: fasta/fasta, csv/csv, csv/fasta and fasta/csv outputs byte-identical, one row per query in order; and with 2 queries every interleaving (3 queries: bounded preemptions) of the csv-involving pipelines must reproduce the fasta/fasta output",
  note="trusted: `updown list` as the producer of the CSV form; the scheduler shim",
  design_ref="DESIGN.md 3 (C09)")
