not_claimed = {}
claimed["C12"] = dict(engine="engine-S", category="model_checking",
  technique="stateless model checking of the real pipelines under a controlled scheduler (all interleavings and map orders; unbounded with happens-before caching or preemption/map-deviation bounded)",
  text="every execution of each command's reader/worker/writer pipeline on 2-3 record inputs with 1-3 workers is enumerated (all interleavings and all map iteration orders, unbounded where the space is small, else <=2 preemptions and <=2 deviating maps) and must produce the single observation of the canonical schedule; the result is then bound to the real binary for --threads 1..16 x GOMAXPROCS 1,4,16",
  note="trusted: the scheduler shim's model of channels/WaitGroup/select; goroutine-local determinism between synchronisation points (the data-race clause of C12 rests on a complementary free-running -race pass, which is not model checking); biogo/hts and the standard library uninstrumented",
  design_ref="DESIGN.md 2.2, 3 (C12)")
