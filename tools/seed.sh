#!/bin/bash
# usage: seed.sh <name> <property> <patch> <demo> <pkgdir> <pattern> <needs...>
# Confirms the mutant in a scratch worktree and, if confirmed, stores it under /verif/seeded/<name>/.
N=$1; PROP=$2; P=$3; D=$4; PKG=$5; PAT=$6; shift 6; NEEDS="$*"
OUT=$(/verif/tools/confirm_mutant.sh "$P" "$D" "$PKG" "$PAT" 2>&1 | tail -3)
echo "$N: $OUT"
case "$OUT" in *CONFIRMED*) ;; *) exit 1;; esac
mkdir -p /verif/seeded/$N
cp "$P" /verif/seeded/$N/patch.diff
cp "$D" /verif/seeded/$N/demo_test.go
python3 - "$N" "$PROP" "$PKG" "$PAT" "$NEEDS" <<'PY'
import json,sys,subprocess
n,prop,pkg,pat,needs=sys.argv[1:6]
head=subprocess.run(["git","-C","/repo","rev-parse","--short","HEAD"],capture_output=True,text=True).stdout.strip()
meta={"property":prop,"breaks":prop,"needs_to_manifest":needs,
 "demo":{"place_at":pkg+"/zz_demo_test.go","run":"go test -vet=off -count=1 -run '%s' ./%s/"%(pat,pkg)},
 "confirmed":{"against_repo_commit":head,"ran":["git apply patch.diff","go build ./...","go test -vet=off -count=1 ./...  (all packages ok with the change)","demo with the change: FAIL","demo without the change: PASS"]},
 "source":"independent sub-agent given only the property text and a scratch worktree"}
json.dump(meta,open("/verif/seeded/%s/meta.json"%n,"w"),indent=1)
PY
