#!/bin/bash
# Engine self-test: instruments a package of micro-programs with known outcome sets (tools/selftest/)
# inside a scratch worktree of /repo and explores each one in unbounded and bounded mode.
export GOFLAGS=-mod=mod GOPROXY=off GOSUMDB=off GOTOOLCHAIN=local
V=$(cd "$(dirname "$0")/.." && pwd)
W=/tmp/selftest_repo; B=/tmp/selftest_build
git -C /repo worktree remove --force $W >/dev/null 2>&1; rm -rf $B
git -C /repo worktree add -f $W HEAD >/dev/null 2>&1 || { echo "worktree failed"; exit 9; }
trap 'git -C /repo worktree remove --force $W >/dev/null 2>&1; rm -rf $B' EXIT
mkdir -p $W/pkg/zzselftest && cp $V/tools/selftest/zzselftest.go $W/pkg/zzselftest/
VERIF_REPO=$W VERIF_BUILD=$B VERIF_TAGS=selftest $V/build.sh || exit 2
VERIF_DIR=$V $B/vcheck selftest
